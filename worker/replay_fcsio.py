"""Replayers (concrete oracles) for the FCS reader properties

  C01.load     loading returns exactly the events recorded in the file; unsupported layouts are refused
  C16.corrupt  truncated / inconsistent files raise or load exactly as the intact file
  C14.text     TEXT-like segments are read back exactly as written, or rejected

Every expectation is computed from the inputs (event matrix, layout description, keyword pairs, segment string) with
code in this file and the independent writer gen_fcs; FlowCal is only used as the system under test.
"""
import io
import itertools
import os
import struct
import warnings

import numpy as np

from replay import replayer, call
import gen_fcs

WIDTHS = (8, 16, 24, 32, 40, 48, 56, 64)


# =================================================================================================
# layout description -> file
# =================================================================================================
def fval(v):
    return float(v) if isinstance(v, str) else v


def pairs_of(x):
    return [(str(k), str(v)) for k, v in (x or [])]


def build_kwargs(L):
    """keyword arguments for gen_fcs.build_fcs from the JSON layout description"""
    kw = dict(version=L.get('version', 'FCS3.0'), datatype=L.get('datatype', 'I'), byteord=L.get('byteord', '4,3,2,1'),
              widths=list(L['widths']), ranges=list(L['ranges']), offsets_in=L.get('offsets_in', 'header'),
              end_convention=L.get('end', 'last'), pad_text=int(L.get('pad_text', 0)), pad_data=int(L.get('pad_data', 0)),
              text_after_data=bool(L.get('text_after_data', False)), delim=L.get('delim', '/'), empty_data='exact',
              extra=pairs_of(L.get('extra')), labels=L.get('labels'), analysis=pairs_of(L.get('analysis')) or None,
              analysis_in=L.get('analysis_in', 'header'), stext=pairs_of(L.get('stext')) or None,
              stext_leading_delim=bool(L.get('stext_leading_delim', True)),
              analysis_leading_delim=bool(L.get('analysis_leading_delim', True)),
              trailer=str(L.get('trailer', '')).encode('latin-1'))
    return kw


def file_rows(L):
    """the numbers handed to the writer (floats may be spelled as strings: 'nan', 'inf', '-0.0')"""
    if L.get('datatype', 'I') == 'I':
        return [[int(v) for v in r] for r in L['data']]
    return [[fval(v) for v in r] for r in L['data']]


def build_file(L, **over):
    kw = build_kwargs(L)
    kw.update(over)
    return gen_fcs.build_fcs(file_rows(L), **kw)


def range_bits(r):
    """ceil(log2(range)) in exact integer arithmetic (range >= 1)"""
    return (int(r) - 1).bit_length()


def expected_events(L):
    """the values the property promises, computed from the inputs only.
    integers: value modulo 2^ceil(log2(range)); floats: the IEEE pattern written (as bits)"""
    dt = L.get('datatype', 'I')
    if dt == 'I':
        out = []
        for r in L['data']:
            row = []
            for v, w, rg in zip(r, L['widths'], L['ranges']):
                v = int(v)
                assert 0 <= v < (1 << w), 'event value does not fit its width'
                row.append(v % (1 << range_bits(rg)))
            out.append(row)
        return out
    fmt = 'f' if dt == 'F' else 'd'
    return [[struct.unpack('<' + fmt, struct.pack('<' + fmt, fval(v)))[0] for v in r] for r in L['data']]


def fbits(x):
    return struct.unpack('<Q', struct.pack('<d', float(x)))[0]


def compare_events(got, L, exp=None):
    """None when `got` (array-like) equals the expected matrix in shape, order and every value, else (class, text)"""
    exp = expected_events(L) if exp is None else exp
    N, D = len(exp), len(L['widths'])
    a = np.asarray(got)
    if a.ndim != 2 or a.shape != (N, D):
        return 'different-shape', 'shape %r, expected %r' % (tuple(a.shape), (N, D))
    if L.get('datatype', 'I') == 'I':
        if a.dtype.kind not in 'ui':
            return 'different-values', 'integer data returned with dtype %s' % a.dtype
        g = a.tolist()
        if g != exp:
            for i in range(N):
                for j in range(D):
                    if g[i][j] != exp[i][j]:
                        return 'different-values', 'event %d parameter %d: read %r (0x%x), expected %r (0x%x)' % (
                            i, j + 1, g[i][j], g[i][j], exp[i][j], exp[i][j])
        return None
    if a.dtype.kind != 'f':
        return 'different-values', 'floating-point data returned with dtype %s' % a.dtype
    g = a.astype(np.float64).tolist()
    for i in range(N):
        for j in range(D):
            x, y = g[i][j], exp[i][j]
            if not ((x != x and y != y) or fbits(x) == fbits(y)):
                return 'different-values', 'event %d parameter %d: read %r, expected %r' % (i, j + 1, x, y)
    return None


def load_both(path):
    """[(how, ('return', (events, text, analysis, channels, warned)) | ('raise', exc))] for FCSFile and FCSData"""
    import FlowCal
    out = []
    with warnings.catch_warnings(record=True) as wlog:
        warnings.simplefilter('always')
        r = call(FlowCal.io.FCSFile, path)
        if r[0] == 'return':
            f = r[1]
            r = ('return', (f.data, dict(f.text), dict(f.analysis), None, len(wlog) > 0))
        out.append(('FCSFile', r))
        del wlog[:]
        r = call(FlowCal.io.FCSData, path)
        if r[0] == 'return':
            d = r[1]
            r = ('return', (np.asarray(d), dict(d.text), dict(d.analysis), list(d.channels), len(wlog) > 0))
        out.append(('FCSData', r))
    return out


def write(tmp, raw, name='case.fcs'):
    p = os.path.join(tmp, name)
    with open(p, 'wb') as f:
        f.write(raw)
    return p


def exc_text(e):
    return '%s: %s' % (type(e).__name__, str(e)[:120])


# =================================================================================================
# C01
# =================================================================================================
def unsupported_extra(L, u):
    """keyword overrides that turn an otherwise valid file into a layout the statement lists as unsupported"""
    k = u['kind']
    if k == 'mode':
        return [('$MODE', u['value'])]
    if k == 'datatype':
        return [('$DATATYPE', u['value'])]
    if k == 'byteord':
        return [('$BYTEORD', u['value'])]
    if k == 'width':
        return [('$P%dB' % (int(p) + 1), str(w)) for p, w in u['value']]
    raise ValueError(k)


@replayer('C01.load')
def r_c01(tmp, inp):
    L = inp
    if any(w not in WIDTHS for w in L['widths']) or any(int(r) < 1 for r in L['ranges']):
        return False, 'layout outside the quantifier: not decisive'
    u = L.get('unsupported')
    if u:
        if u['kind'] == 'width' and (L.get('datatype', 'I') != 'I' or all(int(w) % 8 == 0 for _, w in u['value'])):
            return False, 'not an unsupported layout: not decisive'
        raw, info = build_file(L, extra=pairs_of(L.get('extra')) + unsupported_extra(L, u))
        p = write(tmp, raw)
        for how, r in load_both(p):
            if r[0] == 'return':
                return True, '[unsupported-layout-decoded:%s] %s accepted %s=%r and decoded it as %s' % (
                    u['kind'], how, u['kind'], u['value'], np.asarray(r[1][0]).tolist()[:3])
        return False, 'refused'
    if L.get('version') == 'FCS2.0' and L.get('offsets_in') == 'text':
        return False, 'TEXT-only offsets need FCS3.x: not decisive'
    raw, info = build_file(L)
    if info['data_begin'] <= 0 or info['data_end'] <= 0 or (not L['data'] and info['data_begin'] > info['length']):
        return False, 'offsets not representable (empty DATA beyond the end of the file / zero offset): not decisive'
    p = write(tmp, raw)
    names = ['CH%d' % (i + 1) for i in range(len(L['widths']))]
    exp = expected_events(L)
    for how, r in load_both(p):
        if r[0] == 'raise':
            cls = 'zero-events-refused' if not L['data'] else 'supported-layout-refused'
            return True, '[%s] %s raised %s on a supported layout' % (cls, how, exc_text(r[1]))
        ev, text, an, ch, warned = r[1]
        bad = compare_events(ev, L, exp)
        if bad:
            return True, '[%s] %s: %s' % (bad[0], how, bad[1])
        if ch is not None and ch != names:
            return True, '[different-order] FCSData channels %r, file order %r' % (ch, names)
    return False, 'every value as recorded'


# =================================================================================================
# C14 reference tokenizer (left to right)
# =================================================================================================
def ref_strict(s, d, supplemental):
    """FCS escaping rule, scanned left to right.  segment := [d] (keyword d value d)*   (the leading d is mandatory in
    a primary segment, optional in a supplemental one); inside a keyword/value the delimiter appears doubled; no
    keyword/value is empty or starts with the delimiter.  Returns list of pairs or None (cannot be split)."""
    n = len(s)
    i = 0
    if n == 0:
        return []
    if not supplemental:
        if s[0] != d:
            return None
        i = 1
    elif s[0] == d:
        i = 1
    toks = []
    while i < n:
        if s[i] == d:
            return None                       # empty token / token starting with the delimiter
        tok = []
        closed = False
        while i < n:
            c = s[i]
            if c != d:
                tok.append(c)
                i += 1
            elif i + 1 < n and s[i + 1] == d:
                tok.append(d)                 # doubled delimiter: one literal delimiter
                i += 2
            else:
                i += 1                        # single delimiter: end of this keyword/value
                closed = True
                break
        if not closed:
            return None                       # text after the last boundary / unterminated value
        toks.append(''.join(tok))
    if len(toks) % 2:
        return None
    return list(zip(toks[0::2], toks[1::2]))


def ref_tokenize(s, d, supplemental):
    """('ok', pairs) | ('tolerated', pairs) | ('reject', None).
    tolerated: the one ill-formed ending 'ends with two delimiter characters', read by ignoring the last one"""
    p = ref_strict(s, d, supplemental)
    if p is not None:
        return 'ok', p
    if len(s) >= 2 and s[-1] == d and s[-2] == d:
        p = ref_strict(s[:-1], d, supplemental)
        if p is not None:
            return 'tolerated', p
    return 'reject', None


def dict_matches(got, pairs):
    """got is exactly the set of pairs (a keyword written twice may keep either of its values)"""
    vals = {}
    for k, v in pairs:
        vals.setdefault(k, []).append(v)
    if set(got) != set(vals):
        return False
    return all(got[k] in vals[k] for k in vals)


PRE, POST = 1, 1    # the segment is embedded between other bytes: the reader must honour begin/end


def read_segment(seg, d, supplemental, wlog):
    """run the reader under test on `seg`; returns ('return', (dict, delim), warned) or ('raise', exc, warned)"""
    import FlowCal
    dd = d if d is not None else '/'
    raw = (dd + 'b') * PRE + seg + (dd + 'a' + dd) * POST
    buf = io.BytesIO(raw.encode('latin-1'))
    b = 2 * PRE
    n0 = len(wlog)
    rr = call(FlowCal.io.read_fcs_text_segment, buf, b, b + len(seg) - 1, delim=d if supplemental else None,
              supplemental=supplemental)          # through call(): the outcome is logged for the engine cross-check
    res = (rr[0], rr[1], len(wlog) > n0)
    if len(wlog) > 1000:
        del wlog[:]
    return res


def judge_segment(seg, d, supplemental, wlog):
    """None if the reader's answer is allowed by the property, else (class, text)"""
    dref = d if supplemental else (seg[0] if seg else d)
    kind, pairs = ref_tokenize(seg, dref, supplemental)
    res = read_segment(seg, d, supplemental, wlog)
    tag = 'supplemental' if supplemental else 'primary'
    if res[0] == 'raise':
        if kind == 'ok':
            return 'well-formed-segment-refused', '%s segment %r is %r under the rule but was refused (%s)' % (
                tag, seg, pairs, exc_text(res[1]))
        return None
    got, gd = res[1]
    if kind == 'reject':
        trailing = bool(seg) and seg[-1] != dref
        return ('trailing-text-after-last-delimiter-ignored' if trailing else 'ill-formed-segment-accepted',
                '%s segment %r cannot be split into keyword/value pairs but was read as %r' % (tag, seg, got))
    if not dict_matches(got, pairs):
        return ('tolerated-ending-read-differently' if kind == 'tolerated' else 'pairs-differ',
                '%s segment %r read as %r, the rule gives %r%s' % (tag, seg, got, pairs,
                                                                  ' (ignoring the last delimiter)' if kind == 'tolerated' else ''))
    if kind == 'tolerated' and not res[2]:
        return 'tolerated-ending-without-warning', '%s segment %r (ends with two delimiters) read without a warning' % (tag, seg)
    if seg and gd != dref:
        return 'wrong-delimiter-reported', '%s segment %r: reported delimiter %r, expected %r' % (tag, seg, gd, dref)
    return None


def ending(s, d):
    """'other': last character is not the delimiter; 'even-run': ends with 4, 6, ... delimiters; else 'delim'"""
    if not s or s[-1] != d:
        return 'other' if s else 'delim'
    run = len(s) - len(s.rstrip(d))
    return 'even-run' if run >= 4 and run % 2 == 0 and run < len(s) else 'delim'


def enum_strings(alphabet, n, end, primary=False):
    """all strings of length n whose ending (see `ending`) is `end` ('all': every string), judged with the delimiter in
    force (a primary segment announces its delimiter with its first byte; a supplemental one is read with alphabet[0])"""
    for t in itertools.product(alphabet, repeat=n):
        s = ''.join(t)
        if end == 'all' or ending(s, (t[0] if primary else alphabet[0]) if n else alphabet[0]) == end:
            yield s


TIERS = (('different-shape', 'different-values'), ('keywords-differ',), ('analysis-differs', 'analysis-dropped-with-warning'))


def summarize(bad, total, what, tiers=None):
    """bad: {class: [texts]} -> (violates, detail).  The leading [tag] names the classes of the most serious tier present
    (events > keywords > ANALYSIS) so that a batch never files an event-level violation under a keyword-level class;
    the text lists every class with its count and first example."""
    if not bad:
        return False, '%d %s agree with the reference' % (total, what)
    classes = sorted(bad)
    head = classes
    for t in (tiers or ()):
        if any(c in t for c in classes):
            head = [c for c in classes if c in t]
            break
    parts = ['%s x%d, first: %s' % (c, len(bad[c]), bad[c][0]) for c in classes]
    return True, '[%s] %d of %d %s disagree; %s' % ('+'.join(head), sum(len(v) for v in bad.values()), total, what,
                                                   ' || '.join(parts))


@replayer('C14.text')
def r_c14(tmp, inp):
    mode = inp['mode']
    with warnings.catch_warnings(record=True) as wlog:
        warnings.simplefilter('always')
        if mode == 'string':
            sup = inp['kind'] == 'supplemental'
            bad = judge_segment(inp['segment'], inp.get('delim', '/'), sup, wlog)
            return (False, 'allowed') if bad is None else (True, '[%s] %s' % bad)
        if mode == 'enum':
            sup = inp['kind'] == 'supplemental'
            alphabet = inp.get('alphabet', '/ab')
            lo, hi = inp['lengths']
            bad, total = {}, 0
            for n in range(lo, hi + 1):
                for s in enum_strings(alphabet, n, inp.get('end', 'all'), not sup):
                    total += 1
                    b = judge_segment(s, alphabet[0], sup, wlog)
                    if b is not None:
                        bad.setdefault(b[0], []).append(b[1])
            return summarize(bad, total, '%s segments over %r of length %d..%d (ending: %s)' % (
                inp['kind'], alphabet, lo, hi, inp.get('end', 'all')))
        if mode == 'roundtrip':
            # one or several dictionaries, written with the escaping rule by gen_fcs.encode_text, then read back
            d = inp['delim']
            bad, total = {}, 0
            for pairs in inp['dicts']:
                pairs = pairs_of(pairs)
                if len(set(k for k, _ in pairs)) != len(pairs) or any(not t or t[0] == d for kv in pairs for t in kv):
                    continue                                  # outside the rule: not decisive
                enc = gen_fcs.encode_text(pairs, d)
                for sup, seg in ((False, enc), (True, enc), (True, enc[1:])):
                    if sup and seg is not enc and (not pairs):
                        continue
                    total += 1
                    res = read_segment(seg, d, sup, wlog)
                    if res[0] == 'raise':
                        bad.setdefault('well-formed-segment-refused', []).append(
                            '%s %r (pairs %r) refused: %s' % ('supplemental' if sup else 'primary', seg, pairs, exc_text(res[1])))
                    elif res[1][0] != dict(pairs):
                        bad.setdefault('pairs-differ', []).append('%s %r written from %r read back as %r' % (
                            'supplemental' if sup else 'primary', seg, pairs, res[1][0]))
            return summarize(bad, total, 'encoded dictionaries with delimiter %r' % d)
        if mode == 'file':
            L = inp['layout']
            raw, info = build_file(L)
            p = write(tmp, raw)
            exp_text = dict(info['pairs'])
            exp_text.update(dict(pairs_of(L.get('stext'))))
            exp_an = dict(pairs_of(L.get('analysis')))
            for how, r in load_both(p):
                if r[0] == 'raise':
                    return True, '[well-formed-file-refused] %s raised %s' % (how, exc_text(r[1]))
                ev, text, an, ch, warned = r[1]
                if text != exp_text:
                    return True, '[file-keywords-differ] %s: %s' % (how, dict_diff(text, exp_text))
                if an != exp_an:
                    return True, '[file-analysis-differs] %s: ANALYSIS read as %r, written %r' % (how, an, exp_an)
            return False, 'keywords of TEXT + supplemental TEXT and ANALYSIS as written'
    return False, 'unknown mode: not decisive'


def dict_diff(got, exp):
    miss = sorted(k for k in exp if k not in got)
    extra = sorted(k for k in got if k not in exp)
    diff = sorted(k for k in exp if k in got and got[k] != exp[k])
    out = []
    if miss:
        out.append('missing %r' % miss[:6])
    if extra:
        out.append('unexpected %r' % [(k, got[k]) for k in extra[:4]])
    if diff:
        out.append('changed %r' % [(k, got[k], exp[k]) for k in diff[:4]])
    return '; '.join(out)


# =================================================================================================
# C16
# =================================================================================================
HFIELDS = ('text_begin', 'text_end', 'data_begin', 'data_end', 'analysis_begin', 'analysis_end')


def header_get(raw, name):
    i = HFIELDS.index(name)
    return int(raw[10 + 8 * i:18 + 8 * i])


def header_set(raw, name, v):
    i = HFIELDS.index(name)
    s = ('%8d' % v).encode('latin-1')
    if v < 0 or len(s) != 8:
        return None
    return raw[:10 + 8 * i] + s + raw[18 + 8 * i:]


def text_field_span(raw, info, key):
    """(start, stop) of the value of `key` inside the primary TEXT segment (fixed-width numeric fields)"""
    d = info['delim'].encode('latin-1')
    needle = d + key.encode('latin-1') + d
    seg = raw[info['text_begin']:info['text_end'] + 1]
    i = seg.find(needle)
    if i < 0:
        return None
    a = info['text_begin'] + i + len(needle)
    b = raw.index(d, a)
    return a, b


def regions(info, L):
    """name -> (first, last+1) byte ranges of the file"""
    out = [('HEADER', 0, 58), ('TEXT', info['text_begin'], info['text_end'] + 1)]
    if info['data_nbytes']:
        out.append(('DATA', info['data_begin'], info['data_begin'] + info['data_nbytes']))
    if info['analysis_begin']:
        out.append(('ANALYSIS', info['analysis_begin'], info['analysis_end'] + 1))
    if info['stext_begin']:
        out.append(('STEXT', info['stext_begin'], info['stext_end'] + 1))
    return out


def region_of(k, info, L):
    for name, a, b in regions(info, L):
        if a <= k < b:
            return name
    return 'OTHER'      # padding between segments, trailer


def intact_expectation(L, info, ignore=()):
    text = dict(info['pairs'])
    text.update(dict(pairs_of(L.get('stext'))))
    for k in ignore:
        text.pop(k, None)
    return expected_events(L), text, dict(pairs_of(L.get('analysis')))


def judge_load(path, L, exp, ignore=()):
    """None when both loaders raise or return exactly the intact content; else (class, text)"""
    ev_exp, text_exp, an_exp = exp
    for how, r in load_both(path):
        if r[0] == 'raise':
            continue
        ev, text, an, ch, warned = r[1]
        bad = compare_events(ev, L, ev_exp)
        if bad:
            return bad[0], '%s returned %s (no error)' % (how, bad[1])
        t = dict(text)
        for k in ignore:
            t.pop(k, None)
        if t != text_exp:
            return ('keywords-differ', '%s returned keywords that differ from the intact file%s: %s' % (
                how, ' (with a warning)' if warned else '', dict_diff(t, text_exp)))
        if an != an_exp:
            return ('analysis-dropped-with-warning' if (warned and not an) else 'analysis-differs',
                    '%s returned ANALYSIS %r%s, intact file has %r' % (how, an, ' and a warning' if warned else ' silently', an_exp))
    return None


def declared_data_consistent(L, raw, info, tot, par, widths_decl):
    """True when the (corrupted) declarations describe a DATA extent of exactly their own size, or one byte more
    (the tolerated one-past-the-end convention): such a file is not inconsistent and the property does not apply"""
    hb, he = header_get(raw, 'data_begin'), header_get(raw, 'data_end')
    if not (hb and he):
        sb, se = text_field_span(raw, info, '$BEGINDATA'), text_field_span(raw, info, '$ENDDATA')
        hb, he = int(raw[sb[0]:sb[1]]), int(raw[se[0]:se[1]])
    if par > len(widths_decl) or par < 0 or tot < 0:
        return False
    ws = widths_decl[:par]
    if any(w % 8 for w in ws):
        return False
    size = tot * sum(w // 8 for w in ws)
    extent = he + 1 - hb
    return size == extent or size == extent - 1


def declared_text_consistent(raw, begin, end, delim, supplemental):
    seg = raw[begin:end + 1].decode('latin-1')
    if not seg:
        return True
    d = delim if supplemental else seg[0]
    return ref_tokenize(seg, d, supplemental)[0] != 'reject'


def apply_field_fault(L, fault):
    """-> (raw bytes of the damaged file, info of the file it was derived from, ignored keywords, consistent?) or None"""
    field = fault['field']
    D = len(L['widths'])
    N = len(L['data'])
    if field in ('$TOT', '$PAR') or (field.startswith('$P') and field.endswith('B')):
        to = int(fault['to'])
        if to < 0:
            return None
        tot, par, wd = N, D, list(L['widths'])
        over = {}
        if field == '$TOT':
            tot = to
            over['tot'] = to
        elif field == '$PAR':
            par = to
            over['par'] = to
        else:
            j = int(field[2:-1]) - 1
            if not 0 <= j < D:
                return None
            wd[j] = to
            over['extra'] = pairs_of(L.get('extra')) + [(field, str(to))]
        if (tot, par, wd) == (N, D, list(L['widths'])):
            return None
        raw, info = build_file(L, **over)
        return raw, info, (field,), declared_data_consistent(L, raw, info, tot, par, wd)
    raw, info = build_file(L)
    delta = int(fault['delta'])
    if delta == 0:
        return None
    if field.startswith('H.'):
        name = field[2:]
        old = header_get(raw, name)
        if old == 0:
            return None
        new = old + delta
        if new <= 0:
            return None
        raw2 = header_set(raw, name, new)
        ignore = ()
    elif field.startswith('T.'):
        key = field[2:]
        sp = text_field_span(raw, info, key)
        if sp is None:
            return None
        old = int(raw[sp[0]:sp[1]])
        if old == 0:
            return None
        new = old + delta
        s = ('%0' + str(sp[1] - sp[0]) + 'd') % new
        if new <= 0 or len(s) != sp[1] - sp[0]:
            return None
        raw2 = raw[:sp[0]] + s.encode('latin-1') + raw[sp[1]:]
        ignore = (key,)
    else:
        return None
    if raw2 is None:
        return None
    # is the damaged file consistent in its own right?
    name = field[2:]
    if 'data' in name.lower():
        cons = declared_data_consistent(L, raw2, info, N, D, list(L['widths']))
    elif name in ('text_begin', 'text_end'):
        cons = declared_text_consistent(raw2, header_get(raw2, 'text_begin'), header_get(raw2, 'text_end'), None, False)
    elif 'analysis' in name.lower() or 'STEXT' in name:
        if field.startswith('H.'):
            b, e = header_get(raw2, 'analysis_begin'), header_get(raw2, 'analysis_end')
        else:
            kb, ke = ('$BEGINANALYSIS', '$ENDANALYSIS') if 'ANALYSIS' in name else ('$BEGINSTEXT', '$ENDSTEXT')
            sb, se = text_field_span(raw2, info, kb), text_field_span(raw2, info, ke)
            b, e = int(raw2[sb[0]:sb[1]]), int(raw2[se[0]:se[1]])
        cons = declared_text_consistent(raw2, b, e, info['delim'], True)
    else:
        cons = False
    return raw2, info, ignore, cons


@replayer('C16.corrupt')
def r_c16(tmp, inp):
    L = inp['layout']
    fault = inp['fault']
    kind = fault['kind']
    if any(w not in WIDTHS for w in L['widths']):
        return False, 'layout outside the quantifier: not decisive'
    if kind in ('truncate', 'empty'):
        raw, info = build_file(L)
        exp = intact_expectation(L, info)
        if kind == 'empty':
            cuts = [0]
        elif 'at' in fault:
            cuts = [int(fault['at'])]
        else:
            reg = fault.get('region', 'ALL')
            cuts = [k for k in range(len(raw)) if reg == 'ALL' or region_of(k, info, L) == reg]
        cuts = [k for k in cuts if 0 <= k < len(raw)]
        bad = {}
        for k in cuts:
            p = write(tmp, raw[:k])
            b = judge_load(p, L, exp)
            if b is not None:
                bad.setdefault(b[0], []).append('cut at byte %d of %d (%s): %s' % (k, len(raw), region_of(k, info, L), b[1]))
        v, detail = summarize(bad, len(cuts), 'truncated copies', TIERS)
        if v:
            offs = {c: [int(t.split()[3]) for t in ts] for c, ts in bad.items()}
            detail += ' || failing cut offsets: %r' % ({c: o[:40] for c, o in offs.items()},)
        return v, detail
    if kind == 'field':
        r = apply_field_fault(L, fault)
        if r is None:
            return False, 'fault not applicable to this file: not decisive'
        raw, info, ignore, consistent = r
        exp = intact_expectation(L, info, ignore)
        p = write(tmp, raw)
        b = judge_load(p, L, exp, ignore)
        if b is None:
            return False, 'raises or loads as the intact file'
        if consistent:
            return False, 'the damaged declarations are consistent in their own right (one-past tolerance / well-formed ' \
                          'segment): not decisive (%s)' % b[0]
        return True, '[%s] %s=%s: %s' % (b[0], fault['field'], fault.get('to', '%+d' % int(fault.get('delta', 0))), b[1])
    return False, 'unknown fault: not decisive'
