"""Replayers (concrete oracles written from the property statements) for the Excel workflow:
C10.excel (results equal the documented library steps), C11.faults (row faults are reported in place), C15.workbook /
C15.roundtrip / C15.example (complete, faithful output workbook).

Every case carries an 'aspect' so that one failing clause (e.g. the known crash of the statistics functions) is reported by its own
case and does not hide the other clauses; the processed experiment is cached between consecutive cases of one run.
Detail strings start with a '[tag]' naming the failure kind (gens_excel.failure_class turns it into the class name).
"""
import hashlib
import json
import os
import shutil
import traceback

import numpy as np

from replay import replayer, call
import gen_xlsx

BEADS_SEED = 20240917        # numpy's global generator is used by the bead clustering: fixed before every bead run

UNIT_WORDS = {'channel': 'channel', 'rfi': 'rfi', 'a.u.': 'rfi', 'au': 'rfi', 'mef': 'mef'}
STAT_COLUMNS = ['Mean', 'Geom. Mean', 'Median', 'Mode', 'Std', 'CV', 'Geom. Std', 'Geom. CV', 'IQR', 'RCV']


def _fc():
    import matplotlib
    matplotlib.use('Agg')
    import FlowCal
    return FlowCal


def _key(obj):
    return hashlib.sha1(json.dumps(obj, sort_keys=True, default=str).encode()).hexdigest()[:16]


def crash_tag(e):
    """short stable name of an unexpected exception (by the library frame that raised it)"""
    frames = [f for f in traceback.extract_tb(e.__traceback__) if os.sep + 'FlowCal' + os.sep in f.filename]
    names = [(os.path.basename(f.filename)[:-3], f.name) for f in frames]
    if ('stats', 'mode') in names:
        return 'stats-mode-crash'
    if ('stats', 'iqr') in names or ('stats', 'rcv') in names:
        return 'stats-iqr-crash'
    if names and names[-1] == ('io', '_name_to_index') and isinstance(e, TypeError) and any(
            'percentile' in (f.name or '') or 'quantile' in (f.name or '') for f in traceback.extract_tb(e.__traceback__)):
        where_ = [n for n in names if n[0] not in ('io',)]
        return 'percentile-on-float-sample-crash-in-%s' % (where_[-1][1] if where_ else 'io')
    if isinstance(e, AttributeError) and "'message'" in str(e):
        return 'gate-fraction-fault-aborts-batch'
    if isinstance(e, KeyError) and ('Amp. Type' in str(e) or 'Detector Volt' in str(e)):
        return 'missing-channel-calibration-aborts-batch'
    where = '%s.%s' % names[-1] if names else 'outside'
    return 'crash-%s-in-%s' % (type(e).__name__, where)


def describe(e):
    return '%s: %s' % (type(e).__name__, str(e)[:160])


# --------------------------------------------------------------------------------------------- reference statistics (shim)
def _sel(data, channels):
    return np.asarray(data if channels is None else data[:, channels])


def ref_mode(data, channels=None):
    """most frequent value (the smallest one among ties), per channel"""
    a = _sel(data, channels)

    def one(x):
        v, c = np.unique(x, return_counts=True)
        return v[np.argmax(c)]
    if a.ndim == 1:
        return one(a)
    return np.array([one(a[:, j]) for j in range(a.shape[1])])


def ref_iqr(data, channels=None):
    a = _sel(data, channels)
    q75, q25 = np.percentile(a, [75, 25], axis=0)
    return q75 - q25


def ref_rcv(data, channels=None):
    a = _sel(data, channels)
    q75, q25 = np.percentile(a, [75, 25], axis=0)
    return (q75 - q25) / np.median(a, axis=0)


_PROBE = {}


def _broken(tmp):
    """which of stats.mode / iqr / rcv do not return their textbook value on a tiny integer and float sample"""
    if 'r' in _PROBE:
        return _PROBE['r']
    FlowCal = _fc()
    d = os.path.join(tmp, 'probe')
    if not os.path.isdir(d):
        os.makedirs(d)
    import gen_fcs
    rows = [[1, 2], [1, 3], [2, 3], [5, 5], [7, 3]]
    out = set()
    for dt in ('I', 'F'):
        p = os.path.join(d, 'probe_%s.fcs' % dt)
        gen_fcs.write_fcs(p, rows, names=['A', 'B'], datatype=dt)
        s = FlowCal.io.FCSData(p)
        for name, ref in (('mode', ref_mode), ('iqr', ref_iqr), ('rcv', ref_rcv)):
            for ch in ('A', ['A', 'B']):
                r = call(getattr(FlowCal.stats, name), s, ch)
                want = ref(s, ch)
                if r[0] == 'raise' or np.shape(r[1]) != np.shape(want) or not np.allclose(np.asarray(r[1], dtype=float), want):
                    out.add(name)
    _PROBE['r'] = out
    return out


class Shim(object):
    """level 0: real library; 1: stats.mode replaced by its definition if it is broken; 2: also iqr and rcv.
    Used only to keep exercising the orchestration clauses of the Excel workflow while the statistics functions (property C12)
    are broken; the unshimmed aspect reports the crash itself."""

    def __init__(self, tmp, level):
        self.level = int(level or 0)
        self.tmp = tmp
        self.saved = {}

    def __enter__(self):
        FlowCal = _fc()
        self.active = []
        if self.level:
            bad = _broken(self.tmp)
            names = ['mode'] if self.level == 1 else ['mode', 'iqr', 'rcv']
            for n in names:
                if n in bad:
                    self.saved[n] = getattr(FlowCal.stats, n)
                    setattr(FlowCal.stats, n, {'mode': ref_mode, 'iqr': ref_iqr, 'rcv': ref_rcv}[n])
                    self.active.append(n)
        return self

    def __exit__(self, *a):
        FlowCal = _fc()
        for n, f in self.saved.items():
            setattr(FlowCal.stats, n, f)
        self.saved = {}
        return False


# --------------------------------------------------------------------------------------------- comparison helpers
META = ('channels', 'amplification_type', 'detector_voltage', 'amplifier_gain', 'range', 'resolution')


def sample_diff(a, b):
    """None when the two samples have identical events (values, dtype, shape) and per-channel metadata"""
    if type(a) is not type(b):
        return 'container %s vs %s' % (type(a).__name__, type(b).__name__)
    A, B = np.asarray(a), np.asarray(b)
    if A.shape != B.shape:
        return 'shape %s vs %s' % (A.shape, B.shape)
    if A.dtype != B.dtype:
        return 'dtype %s vs %s' % (A.dtype, B.dtype)
    if not np.array_equal(A, B, equal_nan=True):
        cols = [j for j in range(A.shape[1]) if not np.array_equal(A[:, j], B[:, j], equal_nan=True)] if A.ndim == 2 else []
        names = [a.channels[j] for j in cols] if hasattr(a, 'channels') else cols
        return 'event values differ in channels %s' % (names,)
    for k in META:
        if repr(getattr(a, '_' + k, None)) != repr(getattr(b, '_' + k, None)):
            return 'metadata %s differs: %r vs %r' % (k, getattr(a, '_' + k, None), getattr(b, '_' + k, None))
    return None


def isnull(v):
    import pandas as pd
    try:
        return bool(pd.isnull(v))
    except (TypeError, ValueError):
        return False


def cell_equal(a, b):
    if isnull(a) or isnull(b):
        return isnull(a) and isnull(b)
    sa, sb = isinstance(a, str), isinstance(b, str)
    if sa or sb:
        return sa and sb and a == b
    try:
        return float(a) == float(b)
    except (TypeError, ValueError):
        return a == b


def num_equal(a, b):
    if isnull(a) or isnull(b):
        return isnull(a) and isnull(b)
    return float(a) == float(b)


def empty_cell(v):
    return isnull(v) or v == ''


# --------------------------------------------------------------------------------------------- processed experiment (cached)
class Experiment(object):
    def __init__(self, tmp, spec, pass_beads_table=True):
        FlowCal = _fc()
        self.F = FlowCal
        self.spec = spec
        self.tmp = tmp
        self.pass_beads_table = pass_beads_table
        self.dir = os.path.join(tmp, 'exp_' + _key([spec, pass_beads_table]))
        if os.path.isdir(self.dir):
            shutil.rmtree(self.dir)
        self.wb = gen_xlsx.materialize(spec, self.dir)
        self.it, self.bt0, self.st0 = gen_xlsx.tables(self.wb)
        self.insts = {i['id']: i for i in spec['instruments']}
        self._beads = None
        self._samples = None
        self._bt = None

    def close(self):
        shutil.rmtree(self.dir, ignore_errors=True)

    # real runs ------------------------------------------------------------------
    def beads(self):
        """('return', (beads_samples, fxns, mef_outputs)) or ('raise', exc) of the real bead processing (the outcome for an
        identical instruments+beads description is reused between the cases of one run: the files are regenerated identically)"""
        if self._beads is None:
            k = _key([self.spec['instruments'], self.spec.get('beads'), self.spec.get('mef_columns'), self.tmp])
            if k not in _BEADS_CACHE:
                np.random.seed(BEADS_SEED)
                r = call(self.F.excel_ui.process_beads_table, self.bt0.copy(), self.it.copy(), base_dir=self.dir,
                         verbose=False, plot=False, full_output=True)
                if not self.spec.get('samples'):
                    self._beads = r          # bead-only tables are not referenced again
                    self.beads_key = k
                    return r
                if len(_BEADS_CACHE) > 4:
                    _BEADS_CACHE.clear()
                _BEADS_CACHE[k] = r
            self._beads = _BEADS_CACHE[k]
            self.beads_key = k
        return self._beads

    def beads_table_stats(self):
        """beads table after add_beads_stats (what run() hands to the sample processing): ('return', table) | ('raise', e)"""
        if self._bt is None:
            b = self.beads()
            if b[0] == 'raise':
                self._bt = b
            else:
                bt = self.bt0.copy()
                r = call(self.F.excel_ui.add_beads_stats, bt, b[1][0], b[1][2])
                self._bt = ('return', bt) if r[0] == 'return' else r
        return self._bt

    def sample_args(self):
        b = self.beads()
        if b[0] == 'raise':
            return None
        bt = self.beads_table_stats()
        if bt[0] == 'raise':
            return None
        return b[1][1], (bt[1] if self.pass_beads_table else None)

    def samples(self):
        if self._samples is None:
            a = self.sample_args()
            if a is None:
                self._samples = ('raise', RuntimeError('bead processing failed'))
            else:
                self._samples = call(self.F.excel_ui.process_samples_table, self.st0.copy(), self.it.copy(), a[0],
                                     None if a[1] is None else a[1].copy(), base_dir=self.dir, verbose=False, plot=False)
        return self._samples

    def single(self, sid):
        """the row processed alone (a one-row table); identical rows (same description except the identifier) reuse the outcome"""
        a = self.sample_args()
        row = dict([s for s in self.spec['samples'] if s['id'] == sid][0])
        row.pop('id')
        row.pop('file')
        k = _key([self.beads_key, self.pass_beads_table, row, self.spec.get('units_columns')])
        if k not in _SINGLE_CACHE:
            if len(_SINGLE_CACHE) > 64:
                _SINGLE_CACHE.clear()
            r = call(self.F.excel_ui.process_samples_table, self.st0.loc[[sid]].copy(), self.it.copy(), a[0],
                     None if a[1] is None else a[1].copy(), base_dir=self.dir, verbose=False, plot=False)
            if r[0] == 'return' and list(r[1].keys()) != [sid]:
                return r
            _SINGLE_CACHE[k] = r if r[0] == 'raise' else ('return', r[1][sid])
        r = _SINGLE_CACHE[k]
        return r if r[0] == 'raise' else ('return', {sid: r[1]})

    # hand compositions ----------------------------------------------------------
    def path(self, row):
        return row['file'] if os.path.isabs(row['file']) else os.path.join(self.dir, row['file'])

    def hand_sample(self, row, fxns):
        F = self.F
        inst = self.insts[row['instrument']]
        t = gen_xlsx.template(inst)
        sc = [t['fsc'], t['ssc']]
        s = F.io.FCSData(self.path(row))
        s = F.transform.to_rfi(s, sc)
        reported = []
        for ch in t['fl']:
            if ch not in self.spec.get('units_columns', []):
                continue
            u = row['units'].get(ch)
            if u is None:
                continue
            kind = UNIT_WORDS.get(u.strip().lower())
            if kind is None:
                raise ValueError('units outside the documented set')
            if kind in ('rfi', 'mef'):
                s = F.transform.to_rfi(s, ch)
            if kind == 'mef':
                s = fxns[row['beads']](s, ch)
            reported.append(ch)
        s = F.gate.start_end(s, num_start=250, num_end=100)
        if inst['datatype'] == 'I':
            s = F.gate.high_low(s, sc + reported)
        s = F.gate.density2d(s, channels=sc, gate_fraction=row['gate_fraction'])
        return s

    def hand_beads_gated(self, row):
        F = self.F
        inst = self.insts[row['instrument']]
        t = gen_xlsx.template(inst)
        sc = [t['fsc'], t['ssc']]
        s = F.io.FCSData(self.path(row))
        s = F.transform.to_rfi(s, sc + t['fl'])
        s = F.gate.start_end(s, num_start=250, num_end=100)
        if inst['datatype'] == 'I':
            s = F.gate.high_low(s, channels=sc)
        s = F.gate.density2d(s, channels=sc, gate_fraction=row['gate_fraction'], sigma=5.)
        return s


_EXP = {}
_BEADS_CACHE = {}
_SINGLE_CACHE = {}


def experiment(tmp, spec, pass_beads_table=True):
    k = _key([spec, pass_beads_table, tmp])
    if k not in _EXP:
        for old in list(_EXP.values()):
            old.close()
        _EXP.clear()
        _EXP[k] = Experiment(tmp, spec, pass_beads_table)
    return _EXP[k]


def parse_mef(text):
    return [int(e) if e.strip().isdigit() else np.nan for e in text.split(',')]


# ============================================================================================= C10
@replayer('C10.excel')
def r_c10(tmp, inp):
    ex = experiment(tmp, inp['spec'])
    aspect = inp['aspect']
    if aspect == 'beads':
        return c10_beads(ex)
    if aspect == 'samples':
        return c10_samples(ex)
    if aspect == 'stats':
        return c10_stats(ex, int(inp.get('shim', 0)))
    if aspect == 'hist':
        return c10_hist(ex)
    return False, 'unknown aspect'


def c10_beads(ex):
    """bead rows: the gated bead sample and the fitted calibration equal the documented steps applied by hand"""
    spec = ex.spec
    if not spec.get('beads'):
        r = ex.beads()
        if r[0] == 'raise':
            return True, '[beads-%s] empty beads table: %s' % (crash_tag(r[1]), describe(r[1]))
        ok = all(len(x) == 0 for x in r[1])
        return (not ok), '[beads-empty-table] empty beads table must give empty results'
    r = ex.beads()
    if r[0] == 'raise':
        return True, '[beads-%s] process_beads_table raised %s' % (crash_tag(r[1]), describe(r[1]))
    bs, fx, mo = r[1]
    if list(bs.keys()) != [b['id'] for b in spec['beads']]:
        return True, '[beads-order] bead results %s not under the table identifiers in order' % (list(bs.keys()),)
    F = ex.F
    np.random.seed(BEADS_SEED)
    for b in spec['beads']:
        got = bs[b['id']]
        if isinstance(got, Exception):
            return True, '[beads-healthy-row-error] bead row %s reported %s' % (b['id'], describe(got))
        hand = ex.hand_beads_gated(b)
        d = sample_diff(got, hand)
        t = gen_xlsx.template(ex.insts[b['instrument']])
        chans = [c for c in t['fl'] if c in spec.get('mef_columns', []) and b['mef'].get(c) is not None]
        if d:
            return True, '[beads-gated-sample] bead row %s: %s (hand: to_rfi scatter+fluorescence, 250/100, high_low scatter if ' \
                         'integer, density2d fraction %s sigma 5)' % (b['id'], d, b['gate_fraction'])
        if not chans:
            if fx[b['id']] is not None:
                return True, '[beads-calibration] bead row %s without MEF values got a calibration' % b['id']
            continue
        vals = np.array([parse_mef(b['mef'][c]) for c in chans])
        h = F.mef.get_transform_fxn(hand, vals, mef_channels=chans, clustering_channels=b['clustering'], full_output=True)
        m = mo[b['id']]
        if m is None or fx[b['id']] is None:
            return True, '[beads-calibration] bead row %s with MEF values got no calibration' % b['id']
        if list(m.mef_channels) != chans:
            return True, '[beads-calibration] bead row %s calibrated channels %s, expected %s' % (b['id'], list(m.mef_channels), chans)
        for k in range(len(chans)):
            if not np.array_equal(np.asarray(m.fitting['beads_params'][k]), np.asarray(h.fitting['beads_params'][k])):
                return True, '[beads-calibration] bead row %s channel %s: fitted parameters %s differ from the hand run %s' % (
                    b['id'], chans[k], np.asarray(m.fitting['beads_params'][k]).tolist(), np.asarray(h.fitting['beads_params'][k]).tolist())
    return False, 'bead rows agree with the hand composition'


def c10_samples(ex):
    spec = ex.spec
    a = ex.sample_args()
    if a is None:
        return False, 'bead processing failed (reported by the beads aspect): not decisive'
    r = ex.samples()
    if r[0] == 'raise':
        return True, '[samples-%s] process_samples_table raised %s' % (crash_tag(r[1]), describe(r[1]))
    res = r[1]
    if list(res.keys()) != [s['id'] for s in spec['samples']]:
        return True, '[samples-order] results %s not under the row identifiers in table order' % (list(res.keys()),)
    for s in spec['samples']:
        got = res[s['id']]
        if isinstance(got, Exception):
            return True, '[samples-healthy-row-error] row %s (units %s) reported %s' % (s['id'], s['units'], describe(got))
        hand = ex.hand_sample(s, a[0])
        d = sample_diff(got, hand)
        if d:
            return True, '[samples-differ] row %s (units %s, fraction %s, %s data): %s; workflow %d events, hand composition %d' % (
                s['id'], s['units'], s['gate_fraction'], ex.insts[s['instrument']]['datatype'], d, len(got), len(hand))
    return False, 'every sample equals the hand composition'


def c10_stats(ex, level):
    import pandas as pd
    spec = ex.spec
    r = ex.samples()
    if r[0] == 'raise' or any(isinstance(v, Exception) for v in r[1].values()):
        return False, 'sample processing failed (reported by the samples aspect): not decisive'
    samples = r[1]
    F = ex.F
    with Shim(ex.tmp, level) as sh:
        if level and not sh.active:
            return False, 'statistics functions healthy: same as the unshimmed aspect'
        if level == 2 and sh.active == ['mode']:
            return False, 'only mode is replaced: same as shim level 1'
        st = ex.st0.copy()
        cols0 = list(st.columns)
        q = call(F.excel_ui.add_samples_stats, st, samples)
        if q[0] == 'raise':
            return True, '[%s] add_samples_stats raised %s (units %s)' % (crash_tag(q[1]), describe(q[1]),
                                                                         [s['units'] for s in spec['samples']])
        if list(st.columns[:len(cols0)]) != cols0 or list(st.index) != list(ex.st0.index):
            return True, '[stats-table-shape] input columns/rows not preserved'
        for s in spec['samples']:
            g = samples[s['id']]
            row = st.loc[s['id']]
            if not num_equal(row['Number of Events'], g.shape[0]):
                return True, '[stats-event-count] row %s: Number of Events %r, gated sample has %d' % (s['id'], row['Number of Events'], g.shape[0])
            want_t = g.acquisition_time
            if not num_equal(row['Acquisition Time (s)'], want_t):
                return True, '[stats-acquisition-time] row %s: %r, gated sample %r' % (s['id'], row['Acquisition Time (s)'], want_t)
            note = row['Analysis Notes']
            note = '' if isnull(note) else str(note)
            if note.startswith('ERROR'):
                return True, '[stats-note] healthy row %s has note %r' % (s['id'], note)
            any_nonpos = False
            for ch in spec.get('units_columns', []):
                u = s['units'].get(ch)
                names = ['%s %s' % (ch, c) for c in STAT_COLUMNS]
                if u is None:
                    bad = [n for n in names if n in st.columns and not empty_cell(row[n])]
                    if bad:
                        return True, '[stats-unrequested-channel] row %s: columns %s filled without units' % (s['id'], bad)
                    continue
                x = np.asarray(g[:, ch])
                pos = g
                if np.any(x <= 0):
                    any_nonpos = True
                    pos = g[x > 0]
                    if ch not in note or 'positive' not in note.lower():
                        return True, '[stats-geometric-note] row %s channel %s has %d events <= 0 but the note is %r' % (
                            s['id'], ch, int(np.sum(x <= 0)), note)
                want = {'Mean': F.stats.mean(g, ch), 'Median': F.stats.median(g, ch), 'Mode': F.stats.mode(g, ch),
                        'Std': F.stats.std(g, ch), 'CV': F.stats.cv(g, ch), 'IQR': F.stats.iqr(g, ch), 'RCV': F.stats.rcv(g, ch),
                        'Geom. Mean': F.stats.gmean(pos, ch), 'Geom. Std': F.stats.gstd(pos, ch), 'Geom. CV': F.stats.gcv(pos, ch)}
                for c in STAT_COLUMNS:
                    n = '%s %s' % (ch, c)
                    if n not in st.columns:
                        return True, '[stats-missing-column] column %r missing' % n
                    if not num_equal(row[n], want[c]):
                        return True, '[stats-value] row %s column %r = %r, library statistic of the gated sample%s = %r' % (
                            s['id'], n, row[n], ' (positive events)' if c.startswith('Geom') and pos is not g else '', want[c])
            if not any_nonpos and note != '':
                return True, '[stats-note] row %s without non-positive events has note %r' % (s['id'], note)
    return False, 'statistics columns agree'


def c10_hist(ex):
    import pandas as pd
    spec = ex.spec
    r = ex.samples()
    if r[0] == 'raise' or any(isinstance(v, Exception) for v in r[1].values()):
        return False, 'sample processing failed (reported by the samples aspect): not decisive'
    samples = r[1]
    F = ex.F
    q = call(F.excel_ui.generate_histograms_table, ex.st0.copy(), samples)
    if q[0] == 'raise':
        return True, '[hist-%s] generate_histograms_table raised %s' % (crash_tag(q[1]), describe(q[1]))
    ht = q[1]
    want_rows = [(s['id'], ch) for s in spec['samples'] for ch in spec.get('units_columns', []) if s['units'].get(ch) is not None]
    got_pairs = []
    for idx in ht.index:
        if (idx[0], idx[1]) not in got_pairs:
            got_pairs.append((idx[0], idx[1]))
    if got_pairs != want_rows:
        return True, '[hist-rows] histogram rows for %s, expected (table order) %s' % (got_pairs, want_rows)
    for s in spec['samples']:
        g = samples[s['id']]
        for ch in spec.get('units_columns', []):
            u = s['units'].get(ch)
            if u is None:
                continue
            sub = ht.loc[(s['id'], ch)]
            labels = list(sub.index)
            cl = [l for l in labels if str(l).startswith('Bin Centers')]
            if len(labels) != 2 or 'Counts' not in labels or len(cl) != 1:
                return True, '[hist-rows] row labels for %s/%s are %s' % (s['id'], ch, labels)
            centers = np.array(sub.loc[cl[0]].values, dtype=float)
            counts = np.array(sub.loc['Counts'].values, dtype=float)
            nb = int(np.sum(~np.isnan(centers)))
            if nb == 0 or np.any(np.isnan(centers[:nb])) or np.any(~np.isnan(counts[nb:])) or np.any(np.isnan(counts[:nb])):
                return True, '[hist-layout] %s/%s: %d centres, counts filled %d' % (s['id'], ch, nb, int(np.sum(~np.isnan(counts))))
            if nb > g.resolution(ch):
                return True, '[hist-layout] %s/%s: %d bins exceed the channel resolution %d' % (s['id'], ch, nb, g.resolution(ch))
            kind = UNIT_WORDS[u.strip().lower()]
            if u == 'Channel':
                scales = ['linear']
            elif kind == 'channel':
                scales = ['linear', 'logicle']     # spelling variants of Channel: the statement does not fix the bin scale
            else:
                scales = ['logicle']
            x = np.asarray(g[:, ch])
            ok = False
            why = ''
            for sc in scales:
                ext = np.asarray(g.hist_bins(ch, 2 * nb, sc), dtype=float)
                edges, mids = ext[::2], ext[1::2]
                want, _ = np.histogram(x, bins=edges)
                if not np.array_equal(mids, centers[:nb]):
                    why = 'bin centres are not hist_bins(%s, %d, %s)[1::2]' % (ch, 2 * nb, sc)
                    continue
                if not np.array_equal(want, counts[:nb]):
                    why = 'counts differ from np.histogram of the gated events over hist_bins(%s, %d, %s)[::2] (sum %d vs %d)' % (
                        ch, 2 * nb, sc, int(counts[:nb].sum()), int(want.sum()))
                    continue
                inside = int(np.sum((x >= edges[0]) & (x <= edges[-1])))
                if int(counts[:nb].sum()) != inside:
                    why = 'counts sum to %d, %d events lie within the edges' % (int(counts[:nb].sum()), inside)
                    continue
                ok = True
                break
            if not ok:
                return True, '[hist-counts] %s/%s (units %r): %s' % (s['id'], ch, u, why)
    return False, 'histogram rows agree'


# ============================================================================================= C11
def row_faulty(row):
    return bool(row.get('fault'))


@replayer('C11.faults')
def r_c11(tmp, inp):
    aspect = inp['aspect']
    if aspect == 'empty':
        return c11_empty(tmp, inp)
    ex = experiment(tmp, inp['spec'], inp.get('pass_beads_table', True))
    if aspect == 'beads':
        return c11_beads(ex)
    if aspect == 'samples':
        return c11_samples(ex)
    if aspect == 'stats':
        return c11_stats(ex, int(inp.get('shim', 0)))
    return False, 'unknown aspect'


def fault_list(rows):
    return [r.get('fault') or 'ok' for r in rows]


def c11_beads(ex):
    spec = ex.spec
    F = ex.F
    EXC = F.excel_ui.ExcelUIException
    r = ex.beads()
    fl = fault_list(spec['beads'])
    if r[0] == 'raise':
        return True, '[beads:%s] bead table with row faults %s: the whole batch raised %s' % (crash_tag(r[1]), fl, describe(r[1]))
    bs, fx, mo = r[1]
    ids = [b['id'] for b in spec['beads']]
    if list(bs.keys()) != ids or list(fx.keys()) != ids or list(mo.keys()) != ids:
        return True, '[beads:order] results %s not under the row identifiers %s in table order' % (list(bs.keys()), ids)
    for b in spec['beads']:
        got = bs[b['id']]
        if row_faulty(b):
            if not isinstance(got, EXC):
                return True, '[beads:fault-not-reported:%s] bead row %s (%s) gave %s instead of a row error' % (
                    b['fault'], b['id'], b['fault'], type(got).__name__)
            if fx[b['id']] is not None:
                return True, '[beads:fault-not-reported:%s] faulty bead row %s has a calibration' % (b['fault'], b['id'])
        else:
            if isinstance(got, Exception):
                return True, '[beads:healthy-row-affected] healthy bead row %s reported %s (table faults %s)' % (b['id'], describe(got), fl)
            has = any(b['mef'].get(c) is not None for c in spec.get('mef_columns', []))
            if has != (fx[b['id']] is not None):
                return True, '[beads:healthy-row-affected] healthy bead row %s: calibration present=%s, MEF values given=%s' % (
                    b['id'], fx[b['id']] is not None, has)
    bt = ex.bt0.copy()
    cols0 = list(bt.columns)
    q = call(F.excel_ui.add_beads_stats, bt, bs, mo)
    if q[0] == 'raise':
        return True, '[beads:stats-%s] add_beads_stats raised %s (faults %s)' % (crash_tag(q[1]), describe(q[1]), fl)
    added = [c for c in bt.columns if c not in cols0]
    for b in spec['beads']:
        row = bt.loc[b['id']]
        note = '' if isnull(row['Analysis Notes']) else str(row['Analysis Notes'])
        if row_faulty(b):
            if not note.startswith('ERROR:'):
                return True, '[beads:error-note] faulty bead row %s (%s) has note %r' % (b['id'], b['fault'], note)
            filled = [c for c in added if c != 'Analysis Notes' and not empty_cell(row[c])]
            if filled:
                return True, '[beads:error-row-statistics] faulty bead row %s has filled columns %s' % (b['id'], filled)
        else:
            if note.startswith('ERROR'):
                return True, '[beads:healthy-row-affected] healthy bead row %s has note %r' % (b['id'], note)
            if not num_equal(row['Number of Events'], bs[b['id']].shape[0]):
                return True, '[beads:healthy-row-affected] bead row %s Number of Events %r' % (b['id'], row['Number of Events'])
    return False, 'bead faults reported in place'


def c11_samples(ex):
    spec = ex.spec
    F = ex.F
    EXC = F.excel_ui.ExcelUIException
    fl = fault_list(spec['samples'])
    if ex.sample_args() is None:
        b = ex.beads()
        e = b[1] if b[0] == 'raise' else ex.beads_table_stats()[1]
        return True, '[samples:beads-%s] bead processing for the sample table raised %s' % (crash_tag(e), describe(e))
    r = ex.samples()
    if r[0] == 'raise':
        return True, '[samples:%s] table with row faults %s: the whole batch raised %s' % (crash_tag(r[1]), fl, describe(r[1]))
    res = r[1]
    ids = [s['id'] for s in spec['samples']]
    if list(res.keys()) != ids:
        return True, '[samples:order] results %s not under the row identifiers %s in table order' % (list(res.keys()), ids)
    for s in spec['samples']:
        got = res[s['id']]
        if row_faulty(s):
            if not isinstance(got, EXC):
                return True, '[samples:fault-not-reported:%s] row %s (%s) gave %s instead of a row error' % (
                    s['fault'], s['id'], s['fault'], type(got).__name__)
        else:
            if isinstance(got, Exception):
                return True, '[samples:healthy-row-affected] healthy row %s reported %s (table faults %s)' % (s['id'], describe(got), fl)
            one = ex.single(s['id'])
            if one[0] == 'raise' or isinstance(one[1].get(s['id']), Exception):
                return True, '[samples:healthy-row-fails-alone] row %s alone: %s' % (s['id'], describe(one[1] if one[0] == 'raise' else one[1][s['id']]))
            if list(one[1].keys()) != [s['id']]:
                return True, '[samples:order] single-row run returned keys %s' % (list(one[1].keys()),)
            d = sample_diff(got, one[1][s['id']])
            if d:
                return True, '[samples:healthy-row-affected] row %s in the batch (faults %s) differs from its single-row run: %s' % (s['id'], fl, d)
    return False, 'sample faults reported in place, healthy rows equal their single-row runs'


def c11_stats(ex, level):
    spec = ex.spec
    F = ex.F
    fl = fault_list(spec['samples'])
    if ex.sample_args() is None:
        return False, 'bead processing failed: not decisive'
    r = ex.samples()
    if r[0] == 'raise':
        return False, 'batch aborted (reported by the samples aspect): not decisive'
    res = r[1]
    EXC = F.excel_ui.ExcelUIException
    for s in spec['samples']:
        if row_faulty(s) != isinstance(res[s['id']], EXC):
            return False, 'row status wrong (reported by the samples aspect): not decisive'
    with Shim(ex.tmp, level) as sh:
        if level and not sh.active:
            return False, 'statistics functions healthy: same as the unshimmed aspect'
        st = ex.st0.copy()
        cols0 = list(st.columns)
        q = call(F.excel_ui.add_samples_stats, st, res)
        if q[0] == 'raise':
            return True, '[stats:%s] add_samples_stats raised %s (faults %s)' % (crash_tag(q[1]), describe(q[1]), fl)
        added = [c for c in st.columns if c not in cols0]
        for s in spec['samples']:
            row = st.loc[s['id']]
            note = '' if isnull(row['Analysis Notes']) else str(row['Analysis Notes'])
            if row_faulty(s):
                if not note.startswith('ERROR:'):
                    return True, '[stats:error-note] faulty row %s (%s) has note %r' % (s['id'], s['fault'], note)
                filled = [c for c in added if c != 'Analysis Notes' and not empty_cell(row[c])]
                if filled:
                    return True, '[stats:error-row-statistics] faulty row %s (%s) has filled columns %s' % (s['id'], s['fault'], filled)
            else:
                if note.startswith('ERROR'):
                    return True, '[stats:healthy-row-affected] healthy row %s has note %r' % (s['id'], note)
                if not num_equal(row['Number of Events'], res[s['id']].shape[0]):
                    return True, '[stats:healthy-row-affected] row %s Number of Events %r, sample has %d' % (
                        s['id'], row['Number of Events'], res[s['id']].shape[0])
                for ch in spec.get('units_columns', []):
                    if s['units'].get(ch) is not None and empty_cell(row['%s Mean' % ch]):
                        return True, '[stats:healthy-row-affected] row %s has no statistics for %s' % (s['id'], ch)
        h = call(F.excel_ui.generate_histograms_table, ex.st0.copy(), res)
        if h[0] == 'raise':
            return True, '[stats:hist-%s] generate_histograms_table raised %s (faults %s)' % (crash_tag(h[1]), describe(h[1]), fl)
        present = set(i[0] for i in h[1].index)
        for s in spec['samples']:
            want = (not row_faulty(s)) and any(s['units'].get(c) is not None for c in spec.get('units_columns', []))
            if want != (s['id'] in present):
                return True, '[stats:hist-rows] row %s (%s): histogram rows present=%s expected=%s' % (
                    s['id'], s.get('fault') or 'ok', s['id'] in present, want)
    return False, 'faulty rows carry ERROR notes and empty statistics'


def c11_empty(tmp, inp):
    ex = experiment(tmp, inp['spec'])
    F = ex.F
    bt = ex.bt0.iloc[0:0].copy()
    st = ex.st0.iloc[0:0].copy()
    r = call(F.excel_ui.process_beads_table, bt, ex.it.copy(), base_dir=ex.dir, full_output=True)
    if r[0] == 'raise' or any(len(x) for x in r[1]):
        return True, '[empty-table] empty beads table: %s' % (describe(r[1]) if r[0] == 'raise' else 'non-empty result')
    r2 = call(F.excel_ui.process_beads_table, bt, ex.it.copy(), base_dir=ex.dir)
    if r2[0] == 'raise' or len(r2[1]) != 2 or any(len(x) for x in r2[1]):
        return True, '[empty-table] empty beads table (short output): %s' % (describe(r2[1]) if r2[0] == 'raise' else 'non-empty result')
    q = call(F.excel_ui.process_samples_table, st, ex.it.copy(), {}, None, base_dir=ex.dir)
    if q[0] == 'raise' or len(q[1]):
        return True, '[empty-table] empty samples table: %s' % (describe(q[1]) if q[0] == 'raise' else 'non-empty result')
    a = call(F.excel_ui.add_beads_stats, bt, r[1][0], r[1][2])
    b = call(F.excel_ui.add_samples_stats, st, q[1])
    for x, t in ((a, bt), (b, st)):
        if x[0] == 'raise':
            return True, '[empty-table] statistics of an empty table raised %s' % describe(x[1])
        if len(t) != 0 or 'Analysis Notes' not in t.columns:
            return True, '[empty-table] statistics of an empty table: %d rows, columns %s' % (len(t), list(t.columns))
    h = call(F.excel_ui.generate_histograms_table, st, q[1])
    if h[0] == 'raise' or len(h[1]) != 0:
        return True, '[empty-table] histograms of an empty table: %s' % (describe(h[1]) if h[0] == 'raise' else 'rows')
    return False, 'empty tables give empty results'


# ============================================================================================= C15
def beads_result_columns(spec, nonempty):
    cols = ['Analysis Notes', 'Number of Events', 'Acquisition Time (s)']
    for c in spec.get('mef_columns', []):
        cols += ['%s Detector Volt.' % c, '%s Amp. Type' % c]
        if nonempty:
            cols += ['%s Beads Model' % c, '%s Beads Params. Names' % c, '%s Beads Params. Values' % c]
    return cols


def samples_result_columns(spec):
    cols = ['Analysis Notes', 'Number of Events', 'Acquisition Time (s)']
    for c in spec.get('units_columns', []):
        cols += ['%s Detector Volt.' % c, '%s Amp. Type' % c] + ['%s %s' % (c, k) for k in STAT_COLUMNS]
    return cols


def expected_figures(spec):
    out = []
    insts = {i['id']: i for i in spec['instruments']}
    for b in spec.get('beads', []):
        out += ['plot_beads/density_hist_%s.png' % b['id']]
        t = gen_xlsx.template(insts[b['instrument']])
        chans = [c for c in t['fl'] if c in spec.get('mef_columns', []) and b['mef'].get(c) is not None]
        if chans:
            out += ['plot_beads/clustering_%s.png' % b['id']]
            for c in chans:
                out += ['plot_beads/populations_%s_%s.png' % (c, b['id']), 'plot_beads/std_crv_%s_%s.png' % (c, b['id'])]
    for s in spec.get('samples', []):
        out += ['plot_samples/%s.png' % s['id']]
    return out


def compare_sheets(inp_path, out_path, sheet, result_cols):
    """input rows (those with an identifier) and columns preserved in order; result columns added"""
    tin = gen_xlsx.read_sheet(inp_path, sheet)
    tout = gen_xlsx.read_sheet(out_path, sheet)
    if list(tout.index) != list(tin.index):
        return 'sheet %s: row identifiers %s, input has %s' % (sheet, list(tout.index), list(tin.index))
    n = len(tin.columns)
    if list(tout.columns[:n]) != list(tin.columns):
        return 'sheet %s: leading columns %s, input columns %s' % (sheet, list(tout.columns[:n]), list(tin.columns))
    for c in tin.columns:
        for i in tin.index:
            if not cell_equal(tin.at[i, c], tout.at[i, c]):
                return 'sheet %s: cell (%s, %s) is %r, input has %r' % (sheet, i, c, tout.at[i, c], tin.at[i, c])
    missing = [c for c in result_cols if c not in list(tout.columns[n:])]
    if missing:
        return 'sheet %s: documented result columns missing: %s' % (sheet, missing)
    return None


def check_output_workbook(inp_path, out_path, spec, hist):
    import openpyxl
    if not os.path.isfile(out_path):
        return '[no-output-workbook] %s not written' % os.path.basename(out_path)
    wb = openpyxl.load_workbook(out_path, read_only=True)
    names = list(wb.sheetnames)
    wb.close()
    want = ['Instruments', 'Beads', 'Samples'] + (['Histograms'] if hist else []) + ['About Analysis']
    if names != want:
        return '[output-sheets] sheets %s, expected %s' % (names, want)
    for sheet, rc in (('Instruments', []), ('Beads', beads_result_columns(spec, bool(spec.get('beads')))),
                      ('Samples', samples_result_columns(spec))):
        d = compare_sheets(inp_path, out_path, sheet, rc)
        if d:
            return '[output-sheet-content] ' + d
    so = gen_xlsx.read_sheet(out_path, 'Samples')
    bo = gen_xlsx.read_sheet(out_path, 'Beads')
    for t, nm in ((so, 'Samples'), (bo, 'Beads')):
        for i in t.index:
            note = t.at[i, 'Analysis Notes']
            if not isnull(note) and str(note).startswith('ERROR'):
                return '[output-row-error] well-formed %s row %s reported %r' % (nm, i, note)
            if isnull(t.at[i, 'Number of Events']):
                return '[output-row-error] %s row %s has no event count' % (nm, i)
    for s in spec.get('samples', []):
        for c in spec.get('units_columns', []):
            if s['units'].get(c) is not None and isnull(so.at[s['id'], '%s Mean' % c]):
                return '[output-statistics] Samples row %s has no %s statistics' % (s['id'], c)
    if hist:
        import pandas as pd
        h = pd.read_excel(out_path, sheet_name='Histograms', engine='openpyxl', header=0)
        first = [v for v in h.iloc[:, 0].tolist() if not isnull(v)]
        want_ids = [s['id'] for s in spec.get('samples', []) if any(s['units'].get(c) is not None for c in spec.get('units_columns', []))]
        seen = []
        for v in first:
            if v not in seen:
                seen.append(v)
        if seen != want_ids:
            return '[output-histograms] Histograms sheet lists samples %s, expected %s' % (seen, want_ids)
        # every row carries its identifiers (sample, channel, line kind): "every row is preserved", "reading back returns the same
        # row identifiers"
        ids3 = [tuple(h.iloc[r, 0:3].tolist()) for r in range(len(h))]
        blank = [r for r, t3 in enumerate(ids3) if any(isnull(v) for v in t3)]
        if blank:
            return '[output-histograms-identifiers] Histograms row %d read back with identifiers %r (empty cells)' % (blank[0] + 2, ids3[blank[0]])
        for s_ in spec.get('samples', []):
            for c in spec.get('units_columns', []):
                if s_['units'].get(c) is None:
                    continue
                kinds = [str(t3[2]) for t3 in ids3 if t3[0] == s_['id'] and t3[1] == c]
                if len(kinds) != 2 or 'Counts' not in kinds or not any(k.startswith('Bin Centers') for k in kinds):
                    return '[output-histograms-identifiers] sample %s channel %s: histogram lines %r, expected bin centres and counts' % (s_['id'], c, kinds)
    import pandas as pd
    ab = pd.read_excel(out_path, sheet_name='About Analysis', engine='openpyxl')
    if len(ab) == 0:
        return '[output-sheets] About Analysis sheet is empty'
    return None


@replayer('C15.workbook')
def r_c15(tmp, inp):
    F = _fc()
    import matplotlib.pyplot as plt
    spec = inp['spec']
    d = os.path.join(tmp, 'run_' + _key(inp))
    if os.path.isdir(d):
        shutil.rmtree(d)
    name = inp.get('name', 'experiment.xlsx')
    try:
        wb = gen_xlsx.materialize(spec, d, workbook=name, extra_sheet=inp.get('extra_sheet', False))
        if inp.get('explicit_out'):
            os.makedirs(os.path.join(d, 'results'))
            out = os.path.join(d, 'results', 'analysis.xlsx')
            expect = out
        else:
            out = None
            expect = os.path.join(d, os.path.splitext(name)[0] + '_output.xlsx')
        level = int(inp.get('shim', 0))
        with Shim(tmp, level) as sh:
            if level and not sh.active:
                return False, 'statistics functions healthy: same as the unshimmed case'
            np.random.seed(BEADS_SEED)
            r = call(F.excel_ui.run, input_path=wb, output_path=out, verbose=False, plot=bool(inp.get('plot')),
                     hist_sheet=bool(inp.get('hist')))
        plt.close('all')
        if r[0] == 'raise':
            return True, '[%s] run() raised %s' % (crash_tag(r[1]), describe(r[1]))
        bad = check_output_workbook(wb, expect, spec, bool(inp.get('hist')))
        if bad:
            return True, bad
        if inp.get('plot'):
            for f in expected_figures(spec):
                p = os.path.join(d, f)
                if not os.path.isfile(p) or os.path.getsize(p) == 0:
                    return True, '[figure-missing] documented figure %s not written' % f
        return False, 'complete output workbook'
    finally:
        plt.close('all')
        shutil.rmtree(d, ignore_errors=True)


@replayer('C15.example')
def r_c15_example(tmp, inp):
    F = _fc()
    import matplotlib.pyplot as plt
    import pandas as pd
    src = os.path.join(os.environ.get('FLOWCAL_REPO', '/repo'), 'examples')
    d = os.path.join(tmp, 'example_' + _key(inp))
    if os.path.isdir(d):
        shutil.rmtree(d)
    os.makedirs(d)
    try:
        shutil.copy(os.path.join(src, 'experiment.xlsx'), os.path.join(d, 'experiment.xlsx'))
        os.symlink(os.path.join(src, 'FCFiles'), os.path.join(d, 'FCFiles'))
        wb = os.path.join(d, 'experiment.xlsx')
        level = int(inp.get('shim', 0))
        with Shim(tmp, level) as sh:
            if level and not sh.active:
                return False, 'statistics functions healthy: same as the unshimmed case'
            np.random.seed(BEADS_SEED)
            r = call(F.excel_ui.run, input_path=wb, output_path=None, verbose=False, plot=bool(inp.get('plot')),
                     hist_sheet=bool(inp.get('hist')))
        plt.close('all')
        if r[0] == 'raise':
            return True, '[%s] run() on the shipped example workbook raised %s' % (crash_tag(r[1]), describe(r[1]))
        bt = gen_xlsx.read_sheet(wb, 'Beads')
        st = gen_xlsx.read_sheet(wb, 'Samples')
        spec = {'mef_columns': ['FL1'], 'units_columns': ['FL1'], 'instruments': [],
                'beads': [{'id': i, 'mef': {'FL1': bt.at[i, 'FL1 MEF Values']}} for i in bt.index],
                'samples': [{'id': i, 'units': {'FL1': st.at[i, 'FL1 Units']}} for i in st.index]}
        bad = check_output_workbook(wb, os.path.join(d, 'experiment_output.xlsx'), spec, bool(inp.get('hist')))
        if bad:
            return True, bad
        if inp.get('plot'):
            figs = []
            for i in bt.index:
                figs += ['plot_beads/density_hist_%s.png' % i, 'plot_beads/clustering_%s.png' % i,
                         'plot_beads/populations_FL1_%s.png' % i, 'plot_beads/std_crv_FL1_%s.png' % i]
            figs += ['plot_samples/%s.png' % i for i in st.index]
            for f in figs:
                if not os.path.isfile(os.path.join(d, f)):
                    return True, '[figure-missing] documented figure %s not written' % f
        return False, 'example workbook processed'
    finally:
        plt.close('all')
        shutil.rmtree(d, ignore_errors=True)


@replayer('C15.roundtrip')
def r_c15_roundtrip(tmp, inp):
    """write_workbook / read_table: same cell values, column names and identifiers; rows without identifier dropped; duplicated
    identifiers refused"""
    F = _fc()
    import pandas as pd
    d = os.path.join(tmp, 'rt_' + _key(inp))
    if os.path.isdir(d):
        shutil.rmtree(d)
    os.makedirs(d)
    try:
        path = os.path.join(d, 'tables.xlsx')
        tabs = inp['tables']
        if inp['writer'] == 'write_workbook':
            lst = []
            for t in tabs:
                df = pd.DataFrame([list(r) for r in t['rows']], columns=t['columns'], dtype=object)
                for c in df.columns:
                    try:
                        df[c] = df[c].infer_objects()
                    except Exception:   # noqa
                        pass
                lst.append((t['name'], df.set_index('ID')))
            w = call(F.excel_ui.write_workbook, path, lst, **({'column_width': inp['column_width']} if inp.get('column_width') else {}))
            if w[0] == 'raise':
                return True, '[write-%s] write_workbook raised %s' % (crash_tag(w[1]), describe(w[1]))
            import openpyxl
            wb = openpyxl.load_workbook(path, read_only=True)
            names = list(wb.sheetnames)
            wb.close()
            if names != [t['name'] for t in tabs]:
                return True, '[roundtrip-sheets] sheets %s, written %s' % (names, [t['name'] for t in tabs])
        else:
            gen_xlsx.write_rows_workbook(path, {t['name']: (t['columns'], t['rows']) for t in tabs}, [t['name'] for t in tabs])
        for k, t in enumerate(tabs):
            ids = [r[0] for r in t['rows'] if r[0] is not None]
            dup = len(set(ids)) != len(ids)
            sheet = k if inp.get('by_position') else t['name']
            r = call(F.excel_ui.read_table, path, sheet, 'ID')
            if dup:
                if not (r[0] == 'raise' and isinstance(r[1], ValueError)):
                    return True, '[duplicate-ids-accepted] sheet %s with duplicated identifiers %s: %s' % (
                        t['name'], ids, 'returned a table' if r[0] == 'return' else describe(r[1]))
                continue
            if r[0] == 'raise':
                return True, '[read-%s] read_table raised %s' % (crash_tag(r[1]), describe(r[1]))
            tb = r[1]
            if list(tb.columns) != list(t['columns'][1:]) or tb.index.name != 'ID':
                return True, '[roundtrip-columns] sheet %s: columns %s (index %r), written %s' % (
                    t['name'], list(tb.columns), tb.index.name, t['columns'])
            keep = [r_ for r_ in t['rows'] if r_[0] is not None]
            if len(tb.index) != len(keep) or not all(cell_equal(a, b) for a, b in zip(list(tb.index), [r_[0] for r_ in keep])):
                if len(tb.index) == len(keep) and all(isinstance(b[0], str) and not isinstance(a, str) and not isnull(a)
                                                      for a, b in zip(list(tb.index), keep)):
                    return True, '[numeric-text-read-as-number] sheet %s: text identifiers %s read back as %s' % (
                        t['name'], [r_[0] for r_ in keep], list(tb.index))
                return True, '[roundtrip-identifiers] sheet %s: identifiers %s, written %s (rows without identifier are dropped)' % (
                    t['name'], list(tb.index), [r_[0] for r_ in t['rows']])
            for i, r_ in enumerate(keep):
                for j, c in enumerate(t['columns'][1:]):
                    got = tb.iloc[i, j]
                    if not cell_equal(got, r_[j + 1]):
                        cls = 'roundtrip-cell'
                        if isinstance(r_[j + 1], str) and isnull(got):
                            cls = 'na-like-string-read-as-empty'
                        elif isinstance(r_[j + 1], str) and not isinstance(got, str):
                            cls = 'numeric-text-read-as-number'
                        return True, '[%s] sheet %s cell (%r, %r): read %r, written %r' % (cls, t['name'], r_[0], c, got, r_[j + 1])
        return False, 'round trip faithful'
    finally:
        shutil.rmtree(d, ignore_errors=True)


# ============================================================================================= C13
# Fingerprint harness: no call changes its inputs; results share no mutable state with them; query answers do not depend on
# the queries made before.  The API is enumerated with inspect on every run; CALLS holds how to call each function.
import copy as _copy
import inspect
import io as _io
import pickle

C13_MODULES = ('io', 'transform', 'gate', 'stats', 'mef', 'plot')
C13_INST_INT = {'id': 'I', 'template': 0, 'datatype': 'I', 'sc_amp': 'lin', 'fl_amp': 'log', 'gain': 2.0,
                'volts': {'FSC-H': 300, 'SSC-H': 350, 'FL1-H': 500, 'FL2-H': 550, 'FL3-H': 600}}
C13_INST_FLOAT = {'id': 'F', 'template': 0, 'datatype': 'F', 'sc_amp': 'lin', 'fl_amp': 'lin', 'gain': 2.0,
                  'volts': {'FSC-H': 300, 'SSC-H': 350, 'FL1-H': 500, 'FL2-H': 550, 'FL3-H': 600}}
SC = ['FSC-H', 'SSC-H']
FLS = ['FL1-H', 'FL2-H', 'FL3-H']


def c13_api():
    """qualified names of every public function, and every public method/property of the public classes, of the six modules"""
    F = _fc()
    names = []
    for m in C13_MODULES:
        mod = getattr(F, m)
        for n, f in sorted(vars(mod).items()):
            if n.startswith('_'):
                continue
            if inspect.isfunction(f) and f.__module__ == mod.__name__:
                names.append('%s.%s' % (m, n))
            elif inspect.isclass(f) and f.__module__ == mod.__name__ and not (issubclass(f, tuple) and hasattr(f, '_fields')):
                names.append('%s.%s' % (m, n))
                for a, v in sorted(vars(f).items()):
                    if a.startswith('_'):
                        continue
                    if inspect.isfunction(v) or isinstance(v, (property, staticmethod, classmethod)):
                        names.append('%s.%s.%s' % (m, n, a))
    return names


def _mutable(x):
    return isinstance(x, (list, dict, np.ndarray, set, bytearray)) or (hasattr(x, '__dict__') and not callable(x) and not isinstance(x, type))


def fp(o, ids=True, _depth=0):
    """deep fingerprint: values, dtype, shape, every attribute of a sample, contents (and identities of the mutable elements) of
    containers"""
    if _depth > 12:
        return {'t': 'deep'}
    if isinstance(o, np.ndarray):
        d = {'t': type(o).__name__, 'dtype': str(o.dtype), 'shape': tuple(o.shape)}
        if o.dtype == object:
            d['items'] = [fp(x, ids, _depth + 1) for x in o.ravel().tolist()]
        else:
            d['events'] = hashlib.sha1(np.ascontiguousarray(np.asarray(o)).tobytes()).hexdigest()
        if type(o) is not np.ndarray and hasattr(o, '__dict__'):
            d['attrs'] = {k: fp(v, ids, _depth + 1) for k, v in sorted(vars(o).items())}
        return d
    if isinstance(o, (list, tuple)):
        d = {'t': type(o).__name__, 'items': [fp(x, ids, _depth + 1) for x in o]}
        if ids and isinstance(o, list):
            d['ids'] = [id(x) if _mutable(x) else None for x in o]
        return d
    if isinstance(o, dict):
        d = {'t': 'dict', 'keys': [repr(k) for k in o], 'items': {repr(k): fp(v, ids, _depth + 1) for k, v in o.items()}}
        if ids:
            d['ids'] = {repr(k): (id(v) if _mutable(v) else None) for k, v in o.items()}
        return d
    if isinstance(o, _io.BytesIO):
        return {'t': 'buffer', 'bytes': hashlib.sha1(o.getvalue()).hexdigest()}
    if isinstance(o, _io.IOBase) and isinstance(getattr(o, 'name', None), str):
        with open(o.name, 'rb') as f_:
            return {'t': 'file', 'closed': o.closed, 'bytes': hashlib.sha1(f_.read()).hexdigest()}
    if isinstance(o, (int, float, str, bool, type(None), np.generic, complex, bytes)):
        return {'t': type(o).__name__, 'v': repr(o)}
    if callable(o):
        return {'t': 'callable', 'v': getattr(o, '__name__', type(o).__name__)}
    if hasattr(o, '__dict__'):
        return {'t': type(o).__name__, 'attrs': {k: fp(v, ids, _depth + 1) for k, v in sorted(vars(o).items())}}
    return {'t': type(o).__name__, 'v': repr(o)}


def first_diff(a, b, path=''):
    if type(a) is not type(b):
        return path, a, b
    if isinstance(a, dict):
        keys = list(a.keys()) + [k for k in b.keys() if k not in a]
        if 'ids' in keys:          # rebinding of a container slot is reported before the value changes it causes
            keys = ['ids'] + [k for k in keys if k != 'ids']
        for k in keys:
            if k not in a or k not in b:
                return '%s.%s' % (path, k), a.get(k), b.get(k)
            d = first_diff(a[k], b[k], '%s.%s' % (path, k))
            if d:
                return d
        return None
    if isinstance(a, (list, tuple)):
        if len(a) != len(b):
            return path + '.len', len(a), len(b)
        for i, (x, y) in enumerate(zip(a, b)):
            d = first_diff(x, y, '%s[%d]' % (path, i))
            if d:
                return d
        return None
    return None if a == b else (path, a, b)


def _short(x):
    s = repr(x)
    return s if len(s) < 90 else s[:87] + '...'


class C13Ctx(object):
    def __init__(self, tmp):
        self.F = _fc()
        self.dir = os.path.join(tmp, 'c13')
        if not os.path.isdir(self.dir):
            os.makedirs(self.dir)
        self.paths = {}
        for kind, inst, data in (('int', C13_INST_INT, {'instrument': 'I', 'kind': 'cells', 'n': 320, 'seed': 5}),
                                 ('float', C13_INST_FLOAT, {'instrument': 'F', 'kind': 'cells', 'n': 320, 'seed': 6}),
                                 ('beads', C13_INST_INT, {'instrument': 'I', 'kind': 'beads', 'n': 900, 'seed': 7, 'npop': 4})):
            p = os.path.join(self.dir, kind + '.fcs')
            gen_xlsx.write_data_file(p, inst, data)
            self.paths[kind] = p
        self.mef_values = [float(v) if v.strip().isdigit() else np.nan for v in gen_xlsx.mef_values_string(C13_INST_INT, 4).split(',')]
        self.plotdir = os.path.join(self.dir, 'plots')
        self.handles = []

    def sample(self, kind):
        F = self.F
        if kind in self.paths:
            return F.io.FCSData(self.paths[kind])
        if kind == 'rfi':
            return F.transform.to_rfi(F.io.FCSData(self.paths['int']))
        if kind == 'beads_rfi':
            return F.transform.to_rfi(F.io.FCSData(self.paths['beads']))
        if kind == 'array':
            return np.array(np.asarray(F.io.FCSData(self.paths['float'])), dtype=float)
        if kind == 'int_array':
            return np.array(np.asarray(F.io.FCSData(self.paths['int'])))
        if kind == 'pos_array':
            return np.abs(np.array(np.asarray(F.io.FCSData(self.paths['float'])), dtype=float)) + 1.0
        raise KeyError(kind)

    def buf(self, kind):
        with open(self.paths[kind], 'rb') as f:
            return _io.BytesIO(f.read())

    def fh(self, kind):
        """an open file object (the DATA reader needs a real file)"""
        f = open(self.paths[kind], 'rb')
        self.handles.append(f)
        return f

    def close_handles(self):
        for f in self.handles:
            try:
                f.close()
            except Exception:   # noqa
                pass
        self.handles = []


def c13_calls(ctx):
    """{api name: [(variant, thorough_only, builder)]}; builder() -> (callable, [(argname, value)...], {kwargs}).
    Every argument is built fresh for the call (loaded samples, plain arrays, caller-owned lists and dictionaries)."""
    F = ctx.F
    T = {}

    def add(name, variant, build, thorough=False):
        T.setdefault(name, []).append((variant, thorough, build))

    S = ctx.sample
    kinds_q = ['int', 'float', 'rfi']
    chan_forms = [('none', lambda: None), ('name', lambda: 'FL1-H'), ('index', lambda: 2), ('list', lambda: ['FSC-H', 'FL2-H']),
                  ('intlist', lambda: [0, 3])]
    # ---- io: segment readers and classes
    add('io.read_fcs_header_segment', 'file', lambda: (F.io.read_fcs_header_segment, [('buf', ctx.buf('int'))], {}))

    def text_call(kind):
        def b():
            buf = ctx.buf(kind)
            h = F.io.read_fcs_header_segment(ctx.buf(kind))
            return F.io.read_fcs_text_segment, [('buf', buf), ('begin', h.text_begin), ('end', h.text_end)], {}
        return b
    add('io.read_fcs_text_segment', 'primary', text_call('int'))
    add('io.read_fcs_text_segment', 'primary-float', text_call('float'), True)

    def data_call(kind, ranges):
        def b():
            f = F.io.FCSFile(ctx.paths[kind])
            t = f.text
            n = int(t['$PAR'])
            widths = [int(t['$P%dB' % (i + 1)]) for i in range(n)]
            rng = [int(t['$P%dR' % (i + 1)]) for i in range(n)]
            h = f.header
            beg, end = int(t['$BEGINDATA']), int(t['$ENDDATA'])
            kw = {'param_ranges': rng} if ranges else {}
            return F.io.read_fcs_data_segment, [('buf', ctx.fh(kind)), ('begin', beg), ('end', end), ('datatype', t['$DATATYPE']),
                                                ('num_events', int(t['$TOT'])), ('param_bit_widths', widths),
                                                ('big_endian', True)], kw
        return b
    add('io.read_fcs_data_segment', 'int-with-ranges', data_call('int', True))
    add('io.read_fcs_data_segment', 'float', data_call('float', False))
    add('io.FCSFile', 'path', lambda: (F.io.FCSFile, [('infile', ctx.paths['int'])], {}))
    add('io.FCSFile', 'file-object', lambda: (F.io.FCSFile, [('infile', ctx.fh('float'))], {}))
    for prop in ('infile', 'header', 'text', 'data', 'analysis'):
        add('io.FCSFile.' + prop, 'read', (lambda prop=prop: (lambda f: getattr(f, prop), [('self', F.io.FCSFile(ctx.paths['int']))], {})))
    add('io.FCSData', 'path', lambda: (F.io.FCSData, [('infile', ctx.paths['int'])], {}))
    add('io.FCSData', 'file-object', lambda: (F.io.FCSData, [('infile', ctx.fh('float'))], {}))
    for prop in ('infile', 'text', 'analysis', 'data_type', 'time_step', 'acquisition_start_time', 'acquisition_end_time',
                 'acquisition_time', 'channels'):
        for k in kinds_q:
            add('io.FCSData.' + prop, k, (lambda prop=prop, k=k: (lambda s: getattr(s, prop), [('self', S(k))], {})), k != 'int')
    for meth in ('amplification_type', 'detector_voltage', 'amplifier_gain', 'channel_labels', 'range', 'resolution'):
        for k in kinds_q:
            for cn, cf in chan_forms:
                add('io.FCSData.' + meth, '%s-%s' % (k, cn),
                    (lambda meth=meth, k=k, cf=cf: (lambda s, channels: getattr(s, meth)(channels), [('self', S(k)), ('channels', cf())], {})),
                    k == 'float' or cn == 'intlist')
    for k in kinds_q:
        for scale in ('linear', 'log', 'logicle'):
            for cn, cf, nb in (('name', lambda: 'FL1-H', lambda: 16), ('none', lambda: None, lambda: None),
                               ('list', lambda: ['FSC-H', 'FL2-H'], lambda: [8, 16]), ('index', lambda: 1, lambda: None)):
                add('io.FCSData.hist_bins', '%s-%s-%s' % (k, scale, cn),
                    (lambda k=k, scale=scale, cf=cf, nb=nb: (lambda s, channels, nbins, scale: s.hist_bins(channels, nbins, scale),
                                                             [('self', S(k)), ('channels', cf()), ('nbins', nb()), ('scale', scale)], {})),
                    cn in ('list', 'index') and k != 'int')
        add('io.FCSData.hist_bins', '%s-logicle-kwargs' % k,
            (lambda k=k: (lambda s, channels, kw: s.hist_bins(channels, 32, 'logicle', **kw),
                          [('self', S(k)), ('channels', ['FL1-H', 'FL2-H']), ('kwargs', {'T': 1000.0, 'M': 4.5})], {})), k != 'int')
        add('io.FCSData.hist_bins', '%s-scale-list-log' % k,
            (lambda k=k: (lambda s, channels, nbins, scale: s.hist_bins(channels, nbins, scale),
                          [('self', S(k)), ('channels', ['FSC-H', 'FL1-H', 'FL2-H']), ('nbins', [4, 8, 16]),
                           ('scale', ['linear', 'log', 'logicle'])], {})), k == 'float')
    # ---- transform
    for k in ('int', 'float'):
        for cn, cf in chan_forms:
            add('transform.to_rfi', '%s-%s' % (k, cn),
                (lambda k=k, cf=cf: (F.transform.to_rfi, [('data', S(k)), ('channels', cf())], {})), k == 'float' and cn != 'list')
    add('transform.to_rfi', 'array-overrides',
        lambda: (F.transform.to_rfi, [('data', S('int_array')), ('channels', [2, 3])],
                 {'amplification_type': [(4.0, 1.0), (0.0, 0.0)], 'amplifier_gain': [None, 2.0], 'resolution': [1024, 1024]}))
    add('transform.to_rfi', 'sample-overrides-scalar',
        lambda: (F.transform.to_rfi, [('data', S('int')), ('channels', 'FL1-H')],
                 {'amplification_type': (4.5, 0.5), 'amplifier_gain': None, 'resolution': 256}))

    def curves():
        return [lambda x: 2.0 * x + 1.0, lambda x: np.sign(x) * np.abs(x) ** 1.1]
    for k in ('rfi', 'float', 'array'):
        named = k != 'array'
        add('transform.to_mef', '%s-list' % k,
            (lambda k=k, named=named: (F.transform.to_mef, [('data', S(k)), ('channels', ['FL1-H', 'FL2-H'] if named else [2, 3]),
                                                            ('sc_list', curves()), ('sc_channels', ['FL1-H', 'FL2-H'] if named else [2, 3])], {})))
        add('transform.to_mef', '%s-scalar' % k,
            (lambda k=k, named=named: (F.transform.to_mef, [('data', S(k)), ('channels', 'FL2-H' if named else 3),
                                                            ('sc_list', curves()), ('sc_channels', ['FL1-H', 'FL2-H'] if named else [2, 3])], {})),
            k == 'float')
        add('transform.transform', '%s-list' % k,
            (lambda k=k, named=named: (F.transform.transform, [('data', S(k)), ('channels', ['FL1-H', 'FSC-H'] if named else [2, 0]),
                                                               ('transform_fxn', lambda x: np.asarray(x) * 3.0 + 1)], {})))
        add('transform.transform', '%s-default-channels' % k,
            (lambda k=k, named=named: (F.transform.transform, [('data', S(k)), ('channels', None), ('transform_fxn', np.abs),
                                                               ('def_channels', ['FL1-H'] if named else [2])], {})), k != 'rfi')
    # ---- gate
    for k in ('int', 'float', 'rfi', 'array'):
        for full in (False, True):
            add('gate.start_end', '%s-full%d' % (k, full),
                (lambda k=k, full=full: (F.gate.start_end, [('data', S(k))], {'num_start': 30, 'num_end': 20, 'full_output': full})),
                k in ('float', 'rfi') and full)
        named = k != 'array'
        for cn, cf in (chan_forms if named else [('none', lambda: None), ('index', lambda: 2), ('intlist', lambda: [0, 3])]):
            add('gate.high_low', '%s-%s' % (k, cn),
                (lambda k=k, cf=cf: (F.gate.high_low, [('data', S(k)), ('channels', cf())], {'full_output': True})), k == 'float')
        add('gate.high_low', '%s-thresholds' % k,
            (lambda k=k, named=named: (F.gate.high_low, [('data', S(k)), ('channels', ['FSC-H', 'SSC-H'] if named else [0, 1])],
                                       {'high': 900.0, 'low': 5.0})), k != 'int')
        for log in (False, True):
            src = k if not log else ('rfi' if named else 'pos_array')
            add('gate.ellipse', '%s-log%d' % (k, log),
                (lambda src=src, named=named, log=log: (F.gate.ellipse,
                                                        [('data', S(src)), ('channels', ['FSC-H', 'SSC-H'] if named else [0, 1]),
                                                         ('center', [2.4, 2.4] if log else [250.0, 260.0]), ('a', 0.6 if log else 150.0),
                                                         ('b', 0.4 if log else 90.0)], {'theta': 0.4, 'log': log, 'full_output': True})),
                k in ('float',) or (log and k == 'int'))
    bins_forms = [('int', lambda s: 24), ('none', lambda s: None), ('none-int', lambda s: [None, 10]), ('int-none', lambda s: [12, None]),
                  ('int-int', lambda s: [16, 12]), ('edges', lambda s: np.linspace(0, 1100, 23)),
                  ('edges-int', lambda s: [np.linspace(0, 1100, 23), 12]),
                  ('edges-edges', lambda s: [np.linspace(0, 1100, 23), np.linspace(0, 1100, 12)])]
    for k in ('int', 'rfi', 'float'):
        for bn, bf in bins_forms:
            for scale in ('logicle', 'linear', 'log'):
                if scale != 'logicle' and bn not in ('int', 'none-int', 'int-int'):
                    continue
                if k == 'float' and bn == 'none':
                    continue          # 262144 x 262144 bins
                add('gate.density2d', '%s-bins:%s-%s' % (k, bn, scale),
                    (lambda k=k, bf=bf, scale=scale: (F.gate.density2d, [('data', S(k)), ('channels', ['FSC-H', 'SSC-H'])],
                                                      {'bins': bf(None), 'gate_fraction': 0.5, 'xscale': scale, 'yscale': scale,
                                                       'sigma': 2.0, 'full_output': True})),
                    k != 'int' and not (bn == 'none-int' and scale == 'logicle'))
    add('gate.density2d', 'array-int-bins',
        lambda: (F.gate.density2d, [('data', S('array')), ('channels', [0, 1])], {'bins': 20, 'gate_fraction': 0.3, 'sigma': 1.0}))
    add('gate.density2d', 'array-list-bins',
        lambda: (F.gate.density2d, [('data', S('array')), ('channels', [0, 1])], {'bins': [20, 10], 'gate_fraction': 0.3, 'sigma': [1.0, 2.0]}))
    add('gate.density2d', 'int-default-bins',
        lambda: (F.gate.density2d, [('data', S('int'))], {'gate_fraction': 0.4}), True)

    def bin_mask_call():
        s = S('int')
        m = np.zeros((8, 8), dtype=bool)
        m[2:6, 2:6] = True
        return F.gate.density2d, [('data', s), ('channels', ['FSC-H', 'SSC-H'])], {'bins': [8, 8], 'bin_mask': m, 'xscale': 'linear',
                                                                                  'yscale': 'linear', 'full_output': True}
    add('gate.density2d', 'int-bin-mask', bin_mask_call)
    # ---- stats
    for fn in ('mean', 'gmean', 'median', 'mode', 'std', 'cv', 'gstd', 'gcv', 'iqr', 'rcv'):
        for k in ('int', 'float', 'rfi', 'array'):
            named = k != 'array'
            forms = chan_forms if named else [('none', lambda: None), ('index', lambda: 2), ('intlist', lambda: [0, 3])]
            for cn, cf in forms:
                src = k
                if fn in ('gmean', 'gstd', 'gcv') and k in ('float', 'array'):
                    src = 'pos_array' if k == 'array' else 'rfi'
                add('stats.' + fn, '%s-%s' % (k, cn),
                    (lambda fn=fn, src=src, cf=cf: (getattr(F.stats, fn), [('data', S(src)), ('channels', cf())], {})),
                    k == 'float' or cn in ('index', 'intlist') and k != 'array')
    # ---- mef
    for scale in ('logicle', 'linear', 'log'):
        add('mef.clustering_gmm', 'sample-' + scale,
            (lambda scale=scale: (F.mef.clustering_gmm, [('data', S('beads_rfi')[:, ['FL1-H', 'FL2-H']]), ('n_clusters', 4)], {'scale': scale})),
            scale == 'linear')
        add('mef.clustering_gmm', 'array-' + scale,
            (lambda scale=scale: (F.mef.clustering_gmm, [('data', np.array(np.asarray(S('beads_rfi')[:, ['FL1-H', 'FL2-H']]))), ('n_clusters', 4)],
                                  {'scale': scale, 'min_covar': 1e-3})), scale != 'log')

        def pops_sample(scale=scale):
            b = S('beads_rfi')
            x = np.asarray(b[:, 'FL1-H'])
            qs = np.percentile(x, [25, 50, 75])
            lab = np.digitize(x, qs)
            return F.mef.selection_std, [('populations', [b[lab == i][:, 'FL1-H'] for i in range(4)])], {'scale': scale}

        def pops_array(scale=scale):
            b = S('beads_rfi')
            x = np.asarray(b[:, 'FL1-H'])
            qs = np.percentile(x, [25, 50, 75])
            lab = np.digitize(x, qs)
            return F.mef.selection_std, [('populations', [np.array(x[lab == i]) for i in range(4)])], {'scale': scale, 'low': 1.0, 'high': 9000.0}
        add('mef.selection_std', 'samples-' + scale, pops_sample)
        add('mef.selection_std', 'arrays-' + scale, pops_array, scale == 'linear')

        def pops_int(scale=scale):
            b = S('beads')
            x = np.asarray(b[:, 'FL1-H'])
            qs = np.percentile(x, [25, 50, 75])
            lab = np.digitize(x, qs)
            return F.mef.selection_std, [('populations', [b[lab == i][:, 'FL1-H'] for i in range(4)])], {'scale': scale, 'n_std_low': 2.0}
        add('mef.selection_std', 'integer-samples-' + scale, pops_int, scale != 'log')

        # populations holding zero / negative events (seeded change C13-4: the log rescaling saturates them in place)
        def pops_nonpos(scale=scale):
            return F.mef.selection_std, [('populations', [np.array([0.0, -3.0, 5.0, 7.0, 6.0]), np.array([50.0, 0.0, 60.0, 55.0]),
                                                          np.array([500.0, 520.0, 480.0, -1.0])])], {'scale': scale, 'low': -10.0, 'high': 9000.0}
        add('mef.selection_std', 'arrays-nonpositive-' + scale, pops_nonpos)
    add('mef.fit_beads_autofluorescence', 'arrays',
        lambda: (F.mef.fit_beads_autofluorescence, [('fl_rfi', np.array([4.0, 33.0, 290.0, 2500.0])), ('fl_mef', np.array([0.0, 800.0, 8000.0, 75000.0]))], {}))
    add('mef.fit_beads_autofluorescence', 'lists',
        lambda: (F.mef.fit_beads_autofluorescence, [('fl_rfi', [4.0, 33.0, 290.0, 2500.0]), ('fl_mef', [0.0, 800.0, 8000.0, 75000.0])], {}))
    for xs in ('linear', 'log'):
        def psc(xs=xs):
            import matplotlib.pyplot as plt
            plt.figure()
            return F.mef.plot_standard_curve, [('fl_rfi', np.array([4.0, 33.0, 290.0, 2500.0])), ('fl_mef', np.array([10.0, 800.0, 8000.0, 75000.0])),
                                               ('beads_model', lambda x: 30.0 * x - 5), ('std_crv', lambda x: 30.0 * x)], \
                {'xscale': xs, 'yscale': xs, 'xlim': [1.0, 1e4], 'ylim': [1.0, 1e6]}
        add('mef.plot_standard_curve', xs, psc)
    for form in ('list', 'scalar', 'plot', 'params'):
        def gtf(form=form):
            b = S('beads_rfi')
            kw = {'clustering_channels': ['FL1-H', 'FL2-H']}
            if form == 'scalar':
                args = [('data_beads', b), ('mef_values', np.array(ctx.mef_values)), ('mef_channels', 'FL1-H')]
            else:
                args = [('data_beads', b), ('mef_values', [list(ctx.mef_values), list(ctx.mef_values)]), ('mef_channels', ['FL1-H', 'FL2-H'])]
            if form == 'plot':
                kw.update({'plot': True, 'plot_dir': ctx.plotdir, 'plot_filename': 'c13', 'full_output': True})
            if form == 'params':
                kw.update({'clustering_params': {'tol': 1e-6}, 'statistic_params': {}, 'selection_params': {'n_std_low': 2.0, 'scale': 'log'},
                           'fitting_params': {}, 'full_output': True})
            np.random.seed(3)
            return F.mef.get_transform_fxn, args, kw
        add('mef.get_transform_fxn', form, gtf, form == 'scalar')
    # ---- plot
    for k in ('int', 'rfi', 'float', 'array'):
        named = k != 'array'
        for scale in ('logicle', 'linear', 'log'):
            add('plot.hist1d', '%s-%s-single' % (k, scale),
                (lambda k=k, scale=scale, named=named: (F.plot.hist1d, [('data_list', S(k))],
                                                        {'channel': 'FL1-H' if named else 2, 'xscale': scale,
                                                         'bins': 32 if named else np.linspace(1, 1000, 20)})), k in ('float', 'array') and scale != 'log')
        add('plot.hist1d', '%s-list' % k,
            (lambda k=k, named=named: (F.plot.hist1d, [('data_list', [S(k), S(k)[50:200]])],
                                       {'channel': 'FL2-H' if named else 3, 'xscale': 'logicle' if named else 'linear',
                                        'bins': None if named else 25, 'xlim': [1.0, 2000.0],
                                        'legend': True, 'legend_labels': ['a', 'b'], 'facecolor': ['r', 'b'], 'edgecolor': ['k', 'k']})),
            k == 'float')
        for scale in ('logicle', 'linear', 'log'):
            for bn, bf in bins_forms:
                if bn in ('none', 'none-int', 'int-none') and not named:
                    continue
                if k == 'float' and bn == 'none':
                    continue
                if scale != 'logicle' and bn not in ('int', 'none-int'):
                    continue
                for mode in ('mesh', 'scatter'):
                    if mode == 'scatter' and bn not in ('int', 'none-int'):
                        continue
                    add('plot.density2d', '%s-bins:%s-%s-%s' % (k, bn, scale, mode),
                        (lambda k=k, bf=bf, scale=scale, mode=mode, named=named: (
                            F.plot.density2d, [('data', S(k)), ('channels', ['FSC-H', 'SSC-H'] if named else [0, 1])],
                            {'bins': bf(None), 'mode': mode, 'xscale': scale, 'yscale': scale, 'sigma': 2.0, 'xlim': [1.0, 1500.0]})),
                        not (k == 'int' and (bn in ('int', 'none-int')) and (mode == 'mesh' or scale == 'logicle')))
        for scale in ('logicle', 'log'):
            add('plot.scatter2d', '%s-%s' % (k, scale),
                (lambda k=k, scale=scale, named=named: (F.plot.scatter2d, [('data_list', [S(k), S(k)[10:90]])],
                                                        dict({'channels': ['FSC-H', 'FL1-H'] if named else [0, 2], 'xscale': scale, 'yscale': scale,
                                                              'color': ['b', 'g']}, **({} if named else {'xlim': [1.0, 3e4], 'ylim': [1.0, 3e4]})))),
                k in ('float', 'array') and scale == 'log')
            add('plot.scatter3d', '%s-%s' % (k, scale),
                (lambda k=k, scale=scale, named=named: (F.plot.scatter3d, [('data_list', [S(k)])],
                                                        {'channels': ['FSC-H', 'SSC-H', 'FL1-H'] if named else [0, 1, 2], 'xscale': scale,
                                                         'yscale': scale, 'zscale': scale})), k != 'int')
        add('plot.scatter2d', '%s-single-limits' % k,
            (lambda k=k, named=named: (F.plot.scatter2d, [('data_list', S(k))],
                                       {'channels': ['FSC-H', 'FL1-H'] if named else [0, 2], 'xscale': 'linear', 'yscale': 'logicle',
                                        'xlim': [0.0, 1200.0], 'ylim': [0.0, 5000.0]})), k != 'int')
        add('plot.scatter3d_and_projections', k,
            (lambda k=k, named=named: (F.plot.scatter3d_and_projections, [('data_list', [S(k), S(k)[5:60]])],
                                       {'channels': ['FSC-H', 'SSC-H', 'FL1-H'] if named else [0, 1, 2], 'color': ['b', 'r'],
                                        'xscale': 'logicle' if named else 'linear', 'yscale': 'logicle' if named else 'linear',
                                        'zscale': 'log' if k == 'rfi' else 'linear'})), k in ('float', 'array'))
    for k in ('int', 'rfi', 'float'):
        def dah(k=k, params='dict'):
            s = S(k)
            g = F.gate.density2d(s, channels=['FSC-H', 'SSC-H'], bins=32, gate_fraction=0.5, sigma=2.0, full_output=True)
            kw = {'gated_data': g.gated_data, 'gate_contour': g.contour, 'density_channels': ['FSC-H', 'SSC-H'],
                  'density_params': {'mode': 'scatter', 'bins': [None, 16], 'sigma': 2.0}, 'hist_channels': ['FL1-H', 'FL2-H']}
            if params == 'dict':
                kw['hist_params'] = {'xscale': 'logicle', 'bins': 32}
            else:
                kw['hist_params'] = [{'xscale': 'linear', 'bins': 16, 'xlabel': 'a'}, {'xscale': 'log', 'xlabel': 'b'}]
            return F.plot.density_and_hist, [('data', s)], kw
        add('plot.density_and_hist', '%s-dict-params' % k, dah, k == 'float')
        add('plot.density_and_hist', '%s-list-params' % k, (lambda k=k, dah=dah: dah(k, 'list')), k != 'int')
    add('plot.density_and_hist', 'int-hist-only',
        lambda: (F.plot.density_and_hist, [('data', S('int'))], {'hist_channels': ['FL1-H'], 'hist_params': {}, 'density_params': {}}))
    for k in ('int', 'rfi', 'array'):
        named = k != 'array'
        for ys in ('logicle', 'log', 'linear'):
            add('plot.violin', '%s-list-%s' % (k, ys),
                (lambda k=k, ys=ys, named=named: (F.plot.violin, [('data', [S(k), S(k)[100:300], S(k)[20:120]])],
                                                  {'channel': 'FL1-H' if named else 2, 'positions': [1.0, 2.0, 4.0], 'yscale': ys,
                                                   'violin_kwargs': {'facecolor': 'gray'}, 'draw_summary_stat_kwargs': {'color': 'k'},
                                                   'bin_edges': None})), ys != 'logicle' and k != 'rfi')
        add('plot.violin', '%s-single-horizontal' % k,
            (lambda k=k, named=named: (F.plot.violin, [('data', S(k))], {'channel': 'FL2-H' if named else 3, 'vert': False,
                                                                          'xscale': 'linear', 'bin_edges': np.linspace(0, 1024, 30),
                                                                          'violin_kwargs': [{'facecolor': 'b'}]})), k != 'int')
        add('plot.violin', '%s-1d-log-positions' % k,
            (lambda k=k, named=named: (F.plot.violin, [('data', [np.asarray(S(k))[:, 2].astype(float) + 1.0, np.asarray(S(k))[:150, 2].astype(float) + 1.0])],
                                       {'positions': np.array([0.0, 10.0]), 'xscale': 'log', 'yscale': 'log', 'log_zero_tick_label': 'none',
                                        'draw_log_zero_divider_kwargs': {'color': 'gray'}})), k != 'int')
        for xs in ('linear', 'log'):
            add('plot.violin_dose_response', '%s-%s' % (k, xs),
                (lambda k=k, xs=xs, named=named: (F.plot.violin_dose_response, [('data', [S(k), S(k)[100:300], S(k)[20:120]])],
                                                  {'channel': 'FL1-H' if named else 2, 'positions': [0.0, 1.0, 10.0] if xs == 'log' else [0.0, 1.0, 2.0],
                                                   'min_data': S(k)[:100], 'max_data': S(k)[200:], 'xscale': xs,
                                                   'yscale': 'logicle' if named else 'linear',
                                                   'model_fxn': lambda x: 50.0 + 10.0 * x, 'violin_kwargs': {'facecolor': 'gray'},
                                                   'min_violin_kwargs': {'facecolor': 'b'}, 'max_violin_kwargs': {'facecolor': 'r'},
                                                   'draw_model_kwargs': {'color': 'k'}, 'draw_min_line_kwargs': {'color': 'b'}})),
                k == 'array' or (k == 'rfi' and xs == 'linear'))
    return T


_C13 = {}
_C13_LOG = []


def c13_ctx(tmp):
    if _C13.get('tmp') != tmp:
        _C13.clear()
        _C13['tmp'] = tmp
        _C13['ctx'] = C13Ctx(tmp)
        _C13['calls'] = c13_calls(_C13['ctx'])
    return _C13['ctx'], _C13['calls']


def c13_known_late(name, variant):
    """variants exercising the candidate defects already known on the current tree (list-valued bins, log-scaled bins of a
    sample, selection_std): the generator emits them after all the others so that they cannot crowd new failures out of the
    report; nothing is skipped"""
    v = variant.replace('logicle', '')
    if name == 'mef.selection_std':
        return True
    if name == 'io.FCSData.hist_bins' and 'log' in v:
        return True
    if name in ('gate.density2d', 'plot.density2d') and any(b in variant for b in ('bins:none-int', 'bins:int-none', 'bins:int-int', 'bins:edges-int')):
        return True
    if name == 'plot.density_and_hist' and 'hist-only' not in variant:
        return True
    if name.startswith('plot.scatter') and 'log' in v:
        return True
    return False


def c13_variants(tier):
    """[(api name, variant)] of the call table restricted to the tier, in API enumeration order (used by the generator)"""
    class Lazy(object):
        F = _fc()
        sample = buf = None
    table = c13_calls(Lazy())
    out = []
    for name in c13_api():
        for v, thorough, _b in table.get(name, []):
            if tier == 'quick' and thorough:
                continue
            out.append((name, v))
    return out


def what_changed(path):
    if '_range' in path:
        return 'range'
    if '_text' in path or '_analysis' in path:
        return 'keywords'
    if '.ids' in path or path.endswith('.len') or '.keys' in path:
        return None          # a slot of a caller-owned container was rebound: named after the argument
    if '.attrs._' in path:
        return 'metadata'
    if path.endswith('.events'):
        return 'events'
    return None


def short_fn(name):
    parts = name.split('.')
    if parts[0] == 'io' and len(parts) == 3:
        return parts[2]
    if parts[0] == 'plot':
        return 'plot-' + parts[-1]
    return parts[-1]


def c13_call(tmp, inp):
    import matplotlib.pyplot as plt
    ctx, table = c13_ctx(tmp)
    name, variant = inp['fn'], inp['variant']
    entry = [e for e in table.get(name, []) if e[0] == variant]
    if not entry or name not in c13_api():
        return False, 'no such function/variant in this tree: not decisive'
    try:
        fn, args, kwargs = entry[0][2]()
        named = list(args) + sorted(kwargs.items())
        originals = []
        for an, av in named:
            if isinstance(av, list):
                originals += [('%s[%d]' % (an, i), x) for i, x in enumerate(av) if _mutable(x)]
            elif isinstance(av, dict):
                originals += [('%s[%r]' % (an, k_), x) for k_, x in av.items() if _mutable(x)]
        before = [(an, fp(av)) for an, av in named]
        before_o = [(on, fp(ov)) for on, ov in originals]
        r = call(fn, *[v for _n, v in args], **kwargs)
        after = [(an, fp(av)) for an, av in named]
        after_o = [(on, fp(ov)) for on, ov in originals]
    finally:
        plt.close('all')
        ctx.close_handles()
        if os.path.isdir(ctx.plotdir):
            shutil.rmtree(ctx.plotdir, ignore_errors=True)
    outcome = 'returned' if r[0] == 'return' else 'raised %s' % describe(r[1])
    _C13_LOG.append((name, variant, outcome))
    log = 'log' in variant.replace('logicle', '')
    # the original elements of caller-owned containers first (most specific), then the arguments themselves
    for (an, b), (_a, a) in list(zip(before_o, after_o)) + list(zip(before, after)):
        d = first_diff(b, a, '')
        if d:
            argname = an.split('[')[0]
            what = what_changed(d[0])
            if what is None:
                what = argname if argname != 'self' and argname != 'data' and argname != 'data_list' else 'input'
            tag = '%s%s-mutates-%s' % (short_fn(name), '-log' if (log and what == 'range') else '', what)
            if '.ids' in d[0]:
                return True, '[%s] %s(%s) rebound an element of its caller-owned argument %s (at %s) to another object (call %s)' % (
                    tag, name, variant, an, d[0], outcome)
            return True, '[%s] %s(%s) changed its argument %s at %s: %s -> %s (call %s)' % (
                tag, name, variant, an, d[0] or '.', _short(d[1]), _short(d[2]), outcome)
    return False, 'arguments bit-identical before and after (%s)' % outcome


# ---- results share nothing mutable with the inputs -----------------------------------------------------------------------
def c13_share_ops(ctx):
    """{op: (category, fn(sample) -> result sample)}; category 'copy' (converting, gating, copying) or 'view' (slicing, viewing)"""
    F = ctx.F
    ops = {
        'transform.to_rfi': ('copy', lambda s: F.transform.to_rfi(s)),
        'transform.to_rfi:one-channel': ('copy', lambda s: F.transform.to_rfi(s, 'FL1-H')),
        'transform.to_mef': ('copy', lambda s: F.transform.to_mef(s, ['FL1-H'], [lambda x: 2.0 * x], ['FL1-H'])),
        'transform.transform': ('copy', lambda s: F.transform.transform(s, ['FL1-H'], lambda x: np.asarray(x) + 1.0)),
        'gate.start_end': ('copy', lambda s: F.gate.start_end(s, 30, 20)),
        'gate.high_low': ('copy', lambda s: F.gate.high_low(s, ['FSC-H', 'SSC-H'])),
        'gate.ellipse': ('copy', lambda s: F.gate.ellipse(s, ['FSC-H', 'SSC-H'], center=[500.0, 500.0], a=400.0, b=300.0)),
        'gate.density2d': ('copy', lambda s: F.gate.density2d(s, ['FSC-H', 'SSC-H'], bins=16, gate_fraction=0.6, sigma=1.0)),
        'copy()': ('copy', lambda s: s.copy()),
        'copy.copy': ('copy', lambda s: _copy.copy(s)),
        'copy.deepcopy': ('copy', lambda s: _copy.deepcopy(s)),
        'astype(float)': ('copy', lambda s: s.astype(float)),
        'pickle': ('copy', lambda s: pickle.loads(pickle.dumps(s))),
        'arithmetic': ('copy', lambda s: s * 2),
        'mask-index': ('copy', lambda s: s[np.asarray(s[:, 'FL1-H']) > 100]),
        'fancy-rows': ('copy', lambda s: s[[0, 5, 7]]),
        'channel-list': ('copy', lambda s: s[:, ['FSC-H', 'FL1-H']]),
        'row-slice': ('view', lambda s: s[10:60]),
        'row-step-slice': ('view', lambda s: s[::3]),
        'single-channel': ('view', lambda s: s[:, 'FL1-H']),
        'column-slice': ('view', lambda s: s[:, 1:3]),
        'view()': ('view', lambda s: s.view()),
        'single-event': ('view', lambda s: s[4]),
    }
    return ops


def _containers(o, out, depth=0):
    """ids of every mutable container reachable from the metadata of a sample"""
    if depth > 8:
        return
    if isinstance(o, (list, dict, set)):
        out[id(o)] = o
        for x in (o.values() if isinstance(o, dict) else o):
            _containers(x, out, depth + 1)
    elif isinstance(o, tuple):
        for x in o:
            _containers(x, out, depth + 1)


def meta_containers(s):
    out = {}
    for k, v in vars(s).items():
        _containers(v, out)
    return out


def scribble_meta(s):
    """changes every range limit and adds a keyword on one side"""
    for r in getattr(s, '_range', []) or []:
        if isinstance(r, list):
            r[0] = -12345.0
            r[1] = 54321.0
    if isinstance(getattr(s, '_text', None), dict):
        s._text['$SCRIBBLE'] = 'x'
        for k in list(s._text)[:1]:
            s._text[k] = 'changed'
    if isinstance(getattr(s, '_analysis', None), dict):
        s._analysis['SCRIBBLE'] = 'x'


def c13_share(tmp, inp):
    ctx, _t = c13_ctx(tmp)
    ops = c13_share_ops(ctx)
    if inp['op'] not in ops:
        return False, 'unknown operation'
    cat, fn = ops[inp['op']]
    kind = inp['sample']
    tagbase = 'shared-state-%s' % re.sub(r'[^A-Za-z0-9_.]+', '-', inp['op']).strip('-')
    src = ctx.sample(kind)
    r = call(fn, src)
    if r[0] == 'raise':
        return False, 'operation raised %s: not decisive' % describe(r[1])
    res = r[1]
    if not hasattr(res, '__dict__') or not isinstance(res, np.ndarray):
        return False, 'result is not a sample'
    if cat == 'copy' and np.shares_memory(np.asarray(res), np.asarray(src)):
        return True, '[%s-events] result of %s shares its event buffer with the input' % (tagbase, inp['op'])
    common = set(meta_containers(src)) & set(meta_containers(res))
    if common:
        which = [k for k, v in vars(res).items() if any(i in common for i in _ids_of(v))]
        return True, '[%s-metadata] result of %s shares metadata containers %s with the input' % (tagbase, inp['op'], which)
    for side in ('result', 'input'):
        src = ctx.sample(kind)
        res = fn(src)
        a, b = (res, src) if side == 'result' else (src, res)
        before = fp(b, ids=False)
        if cat == 'view':
            before.pop('events', None)
        scribble_meta(a)
        if cat == 'copy' and np.asarray(a).flags.writeable and np.asarray(a).size:
            np.asarray(a)[...] = 0
        after = fp(b, ids=False)
        if cat == 'view':
            after.pop('events', None)
        d = first_diff(before, after, '')
        if d:
            return True, '[%s-%s] after changing the %s of %s, the other side changed at %s: %s -> %s' % (
                tagbase, what_changed(d[0]) or 'state', side, inp['op'], d[0], _short(d[1]), _short(d[2]))
    return False, 'no shared mutable state'


def _ids_of(v):
    out = {}
    _containers(v, out)
    return list(out)


# ---- order independence of read-only queries -------------------------------------------------------------------------------
def c13_queries(ctx):
    F = ctx.F
    Q = [
        ('channels', lambda s: s.channels),
        ('range', lambda s: s.range()),
        ('range:FL1-H', lambda s: s.range('FL1-H')),
        ('range:list', lambda s: s.range(['FSC-H', 'FL2-H'])),
        ('resolution', lambda s: s.resolution()),
        ('amplification_type', lambda s: s.amplification_type()),
        ('detector_voltage', lambda s: s.detector_voltage()),
        ('amplifier_gain', lambda s: s.amplifier_gain()),
        ('channel_labels', lambda s: s.channel_labels()),
        ('time_step', lambda s: s.time_step),
        ('acquisition_time', lambda s: s.acquisition_time),
        ('acquisition_start_time', lambda s: s.acquisition_start_time),
        ('data_type', lambda s: s.data_type),
        ('text', lambda s: dict(s.text)),
        ('analysis', lambda s: dict(s.analysis)),
        ('str', lambda s: str(s)),
        ('hist_bins:linear', lambda s: s.hist_bins('FL1-H', 16, 'linear')),
        ('hist_bins:log', lambda s: s.hist_bins('FL1-H', 16, 'log')),
        ('hist_bins:logicle', lambda s: s.hist_bins('FL1-H', 16, 'logicle')),
        ('hist_bins:all-log', lambda s: s.hist_bins(scale='log')),
        ('hist_bins:all-default', lambda s: s.hist_bins()),
        ('stats.mean', lambda s: F.stats.mean(s)),
        ('stats.median:list', lambda s: F.stats.median(s, ['FL1-H', 'FL2-H'])),
        ('stats.std:FL1-H', lambda s: F.stats.std(s, 'FL1-H')),
        ('gate.high_low', lambda s: np.asarray(F.gate.high_low(s))),
        ('gate.high_low:FL1-H', lambda s: np.asarray(F.gate.high_low(s, 'FL1-H', full_output=True).mask)),
        ('gate.start_end', lambda s: np.asarray(F.gate.start_end(s, 10, 10))),
        ('gate.density2d:linear', lambda s: np.asarray(F.gate.density2d(s, ['FSC-H', 'SSC-H'], bins=16, xscale='linear', yscale='linear',
                                                                       sigma=1.0, full_output=True).mask)),
        ('gate.density2d:log', lambda s: np.asarray(F.gate.density2d(s, ['FSC-H', 'FL1-H'], bins=16, xscale='log', yscale='log',
                                                                    sigma=1.0, full_output=True).mask)),
        ('transform.to_rfi', lambda s: (np.asarray(F.transform.to_rfi(s)), F.transform.to_rfi(s).range())),
        ('slice:FL1-H:range', lambda s: s[:, 'FL1-H'].range()),
    ]
    return Q


def c13_order(tmp, inp):
    ctx, _t = c13_ctx(tmp)
    Q = c13_queries(ctx)
    names = [q[0] for q in Q]
    if inp['first'] not in names:
        return False, 'unknown query'
    kind = inp['sample']

    def answer(f, s):
        r = call(f, s)
        return fp(r[1], ids=False) if r[0] == 'return' else {'raised': type(r[1]).__name__}
    base = {}
    for n, f in Q:
        base[n] = answer(f, ctx.sample(kind))
    f1 = dict(Q)[inp['first']]
    changed = []
    example = None
    for n, f in Q:
        s = ctx.sample(kind)
        a1 = answer(f1, s)
        a2 = answer(f, s)
        if a1 != base[inp['first']]:
            return True, '[nondeterministic-query] %s gives different answers on two fresh loads' % inp['first']
        if a2 != base[n]:
            changed.append(n)
            if example is None:
                d = first_diff(base[n], a2, '')
                example = '%s: %s -> %s at %s' % (n, _short(d[1]), _short(d[2]), d[0])
    if changed:
        first = inp['first']
        if first.startswith('hist_bins') and 'log' in first.split(':')[1].replace('logicle', ''):
            tag = 'hist_bins-log-mutates-range'
        else:
            tag = 'query-order-%s' % re.sub(r'[^A-Za-z0-9_.]+', '-', first)
        return True, '[%s] on a %s sample, asking %s first changes the answers of %s (e.g. %s)' % (tag, kind, first, changed, example)
    return False, 'answers independent of the query made before'


def c13_coverage(tmp, inp):
    ctx, table = c13_ctx(tmp)
    api = c13_api()
    uncovered = [n for n in api if n not in table]
    stale = [n for n in table if n not in api]
    raised = ['%s(%s): %s' % x for x in _C13_LOG if x[2] != 'returned']
    return False, 'enumerated %d public functions/methods, %d with call entries; uncovered: %s; table entries without function: %s; ' \
                  'calls that raised (inputs still compared): %s' % (len(api), len(api) - len(uncovered), uncovered, stale, raised[:120])


import re  # noqa: E402


@replayer('C13.frame')
def r_c13(tmp, inp):
    k = inp['kind']
    if k == 'call':
        return c13_call(tmp, inp)
    if k == 'share':
        return c13_share(tmp, inp)
    if k == 'order':
        return c13_order(tmp, inp)
    if k == 'coverage':
        return c13_coverage(tmp, inp)
    return False, 'unknown kind'
