"""Replayers for FlowCal.transform contracts (C06, C03, C07)."""
import numpy as np

from replay import replayer, make_fcs, fnum, call, meta_of, data_input


def curves(n):
    return [(lambda x, k=k: (k + 2.0) * x + 0.5 * (k + 1)) for k in range(n)]


def resolve(names, D, c):
    if isinstance(c, str):
        return names.index(c) if c in names else None
    return c if 0 <= c < D else None


@replayer('FlowCal.transform.to_mef')
def r_to_mef(tmp, inp):
    import FlowCal
    data = data_input(tmp, inp)
    X = np.asarray(data, dtype=float).copy()
    N, D = X.shape
    names = list(getattr(data, '_channels', []) or [])
    ch, scch, nl = inp['channels'], inp['sc_channels'], inp['n_curves']
    if nl is None or (isinstance(ch, list) and ch is None) or (inp['sc_channels'] is None and False):
        return False, 'witness too large'
    scs = curves(nl)
    before_range = repr(getattr(data, '_range', None))
    res = call(FlowCal.transform.to_mef, data, ch, scs, scch)
    sc_cols = list(range(D)) if scch is None else [resolve(names, D, c) for c in scch]
    if ch is None:
        req_cols = sc_cols
    elif isinstance(ch, list):
        req_cols = [resolve(names, D, c) for c in ch]
    else:
        req_cols = [resolve(names, D, ch)]
    must_raise = (len(sc_cols) != nl) or any(c is None for c in sc_cols + req_cols) or any(c not in sc_cols for c in req_cols)
    if must_raise:
        ok = res[0] == 'raise' and isinstance(res[1], (ValueError, IndexError))
        return (not ok), 'length mismatch / uncovered channel / unknown name must raise ValueError; observed %s' % (
            res[0] if res[0] == 'return' else repr(res[1]))
    if res[0] == 'raise':
        return True, 'refused a complete request: %r' % (res[1],)
    out = res[1]
    exp = X.copy()
    for c in set(req_cols):
        exp[:, c] = scs[sc_cols.index(c)](X[:, c])
    if np.asarray(out).shape != exp.shape or not np.array_equal(np.asarray(out), exp):
        bad = [c for c in range(D) if not np.array_equal(np.asarray(out)[:, c], exp[:, c])]
        return True, 'columns %s differ from "requested channels converted with their own curve, others identical"' % bad
    if type(out) is not type(data):
        return True, 'container kind changed'
    if out is data or np.shares_memory(np.asarray(out), np.asarray(data)):
        return True, 'the result shares its event buffer with the input (not a new sample)'
    if not np.array_equal(np.asarray(data, dtype=float), X):
        return True, 'input events were modified'
    if hasattr(data, '_range'):
        if repr(data._range) != before_range:
            return True, 'input range was modified'
        for c in range(D):
            r0 = data._range[c]
            if c in req_cols and r0 is not None:
                f = scs[sc_cols.index(c)]
                want = [f(r0[0]), f(r0[1])]
            else:
                want = r0
            if (out._range[c] is None) != (want is None) or (want is not None and list(out._range[c]) != list(want)):
                return True, 'range of column %d is %r, expected %r' % (c, out._range[c], want)
        mo, md = meta_of(out), meta_of(data)
        for k in mo:
            if k != 'range' and repr(mo[k]) != repr(md[k]):
                return True, 'metadata %s changed' % k
    return False, 'agrees'


@replayer('FlowCal.transform.to_rfi')
def r_to_rfi(tmp, inp):
    import FlowCal
    data = data_input(tmp, inp)
    if inp.get('data') is None:
        return False, 'witness too large'
    X = np.asarray(data, dtype=float).copy()
    N, D = X.shape
    names = list(getattr(data, '_channels', []) or [])
    fcs = hasattr(data, '_channels')
    ch, form, ents = inp['channels'], inp['ov_form'], inp.get('entries')
    kw = {}
    scalar = not isinstance(ch, list) and ch is not None
    n = 1 if scalar else (D if ch is None else len(ch))

    def val(e, k):
        v = e[k]
        if v is None:
            return None
        if k == 'at':
            return (fnum(v[0]), fnum(v[1]))
        return fnum(v) if k == 'ag' else int(v)
    if form != 'none':
        es = (ents or [])[:n]
        while len(es) < n:
            es.append({'at': None, 'ag': None, 'r': None})
        if scalar:
            kw = {'amplification_type': val(es[0], 'at'), 'amplifier_gain': val(es[0], 'ag'), 'resolution': val(es[0], 'r')}
        else:
            kw = {'amplification_type': [val(e, 'at') for e in es], 'amplifier_gain': [val(e, 'ag') for e in es],
                  'resolution': [val(e, 'r') for e in es]}
            key = ('amplification_type', 'amplifier_gain', 'resolution')[inp.get('which') or 0]
            if form == 'badlen':
                kw[key] = kw[key] + [kw[key][0] if kw[key] else None]
            if form == 'noniter':
                kw[key] = 3.0
    else:
        es = [{'at': None, 'ag': None, 'r': None}] * n
    before_range = repr(getattr(data, '_range', None))
    res = call(FlowCal.transform.to_rfi, data, ch, **kw)
    if form in ('badlen', 'noniter'):
        ok = res[0] == 'raise' and isinstance(res[1], ValueError)
        return (not ok), 'inconsistent argument lengths must raise ValueError; observed %s' % (res[0] if res[0] == 'return' else repr(res[1]))

    def resolve(c):
        if isinstance(c, str):
            return names.index(c) if c in names else None
        return c + D if -D <= c < 0 else (c if 0 <= c < D else None)
    cols = list(range(D)) if ch is None else ([resolve(c) for c in ch] if isinstance(ch, list) else [resolve(ch)])
    if any(c is None for c in cols):
        return res[0] != 'raise', 'unknown name / bad position must raise; observed %s' % res[0]
    if len(set(cols)) != len(cols):
        return False, 'repeated channel: outside the precondition'
    laws = []
    for e, c in zip(es, cols):
        at = val(e, 'at') if form != 'none' else None
        if at is None:
            at = data._amplification_type[c] if fcs else None
        if at is None:
            return res[0] != 'raise', 'no amplification type available: must raise'
        if at[0] == 0:
            g = val(e, 'ag') if form != 'none' else None
            if g is None:
                g = (data._amplifier_gain[c] if fcs else None)
            if g is None:
                g = 1.0
            if g <= 0:
                return False, 'non-positive gain: outside the quantifier'
            laws.append(lambda x, g=g: x / g)
        else:
            r = val(e, 'r') if form != 'none' else None
            if r is None:
                r = data._resolution[c] if fcs else None
            if r is None:
                return res[0] != 'raise', 'no resolution available: must raise'
            if r <= 0:
                return False, 'non-positive resolution: outside the quantifier'
            laws.append(lambda x, a0=at[0], a1=at[1], r=r: a1 * 10 ** (a0 * x / float(r)))
    if res[0] == 'raise':
        return True, 'refused a complete request: %r' % (res[1],)
    out = res[1]
    exp = X.copy()
    for f, c in zip(laws, cols):
        exp[:, c] = f(X[:, c])
    O = np.asarray(out)
    if O.shape != exp.shape or not np.allclose(O, exp, rtol=1e-9, atol=0, equal_nan=True):
        bad = [c for c in range(D) if not np.allclose(O[:, c], exp[:, c], rtol=1e-9, atol=0, equal_nan=True)]
        return True, 'columns %s do not follow their amplifier law (or unselected columns changed)' % bad
    for c in range(D):
        if c not in cols and not np.array_equal(O[:, c], X[:, c]):
            return True, 'unselected column %d is not bit-identical' % c
    if type(out) is not type(data):
        return True, 'container kind changed'
    if out is data or np.shares_memory(np.asarray(out), np.asarray(data)):
        return True, 'the result shares its event buffer with the input (not a new sample)'
    if not np.array_equal(np.asarray(data, dtype=float), X):
        return True, 'input events were modified'
    if fcs:
        if repr(data._range) != before_range:
            return True, 'input range was modified'
        for c in range(D):
            r0 = data._range[c]
            if c in cols and r0 is not None:
                f = laws[cols.index(c)]
                want = [f(r0[0]), f(r0[1])]
                got = out._range[c]
                if got is None or not np.allclose(got, want, rtol=1e-9, atol=0):
                    return True, 'range of converted column %d is %r, expected %r' % (c, got, want)
            elif repr(out._range[c]) != repr(r0):
                return True, 'range of unconverted column %d changed: %r -> %r' % (c, r0, out._range[c])
        mo, md = meta_of(out), meta_of(data)
        for k in mo:
            if k != 'range' and repr(mo[k]) != repr(md[k]):
                return True, 'metadata %s changed' % k
    return False, 'agrees'


@replayer('C07.commute')
def r_c07(tmp, inp):
    """ranges follow the data: limits are exactly the transformed saturated events; default high/low gating commutes"""
    import FlowCal
    R = int(inp['resolution'])
    D = 3
    names = ['FSC-H', 'FL1-H', 'FL2-H']
    lo, hi = 0, R - 1
    base = [lo, hi, lo + 1, hi - 1, lo, hi, R // 2, R // 3, hi, 7 % R]
    rows = [[base[(i + j * 3) % len(base)] for j in range(D)] for i in range(len(base))]
    rows += [[lo + 2, hi - 2, R // 2]] * 2
    at = [[fnum(inp['a0']), fnum(inp['a1'])]] * D if inp['kind'] == 'rfi' else [[0.0, 0.0]] * D
    meta = {'channels': names, 'range': [[float(lo), float(hi)]] * D, 'amplification_type': at,
            'amplifier_gain': [inp.get('gain')] * D, 'resolution': [R] * D}
    d = make_fcs(tmp, rows, meta)
    d = d.astype(int) if inp.get('int_data', True) else d
    d._range = [[float(lo), float(hi)] for _ in range(D)]
    sel = inp['channels']
    if inp['kind'] == 'rfi':
        conv = lambda x: FlowCal.transform.to_rfi(x, sel)
    else:
        m_, b_ = fnum(inp['m']), fnum(inp['b'])
        sc = lambda x: np.sign(x) * np.exp(b_) * (np.abs(x) ** m_)
        conv = lambda x: FlowCal.transform.to_mef(x, sel, [sc] * len(sel), sel)
    t = conv(d)
    X = np.asarray(d)
    T = np.asarray(t)
    for c in range(D):
        nm = names[c]
        if nm in sel:
            for lim, orig in ((0, lo), (1, hi)):
                ev = T[X[:, c] == orig, c]
                if len(ev) and not np.all(ev == t.range(nm)[lim]):
                    return True, 'channel %s: new %s limit %r differs from the converted saturated events %r' % (
                        nm, 'upper' if lim else 'lower', t.range(nm)[lim], float(ev[0]))
        elif list(t.range(nm)) != [float(lo), float(hi)]:
            return True, 'unconverted channel %s changed its limits: %r' % (nm, t.range(nm))
    before = conv(FlowCal.gate.high_low(d, names))
    after = FlowCal.gate.high_low(t, names)
    if np.asarray(before).shape != np.asarray(after).shape or not np.array_equal(np.asarray(before), np.asarray(after)):
        return True, 'gating before the conversion keeps %d events, after it %d' % (len(before), len(after))
    return False, 'commutes'
