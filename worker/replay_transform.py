"""Replayers for FlowCal.transform contracts (C06, C03, C07)."""
import numpy as np

from replay import replayer, make_fcs, fnum, call, meta_of, data_input


def curves(n):
    return [(lambda x, k=k: (k + 2.0) * x + 0.5 * (k + 1)) for k in range(n)]


def resolve(names, D, c):
    if isinstance(c, str):
        return names.index(c) if c in names else None
    return c if 0 <= c < D else None


@replayer('FlowCal.transform.to_mef')
def r_to_mef(tmp, inp):
    import FlowCal
    data = data_input(tmp, inp)
    X = np.asarray(data, dtype=float).copy()
    N, D = X.shape
    names = list(getattr(data, '_channels', []) or [])
    ch, scch, nl = inp['channels'], inp['sc_channels'], inp['n_curves']
    if nl is None or (isinstance(ch, list) and ch is None) or (inp['sc_channels'] is None and False):
        return False, 'witness too large'
    scs = curves(nl)
    before_range = repr(getattr(data, '_range', None))
    res = call(FlowCal.transform.to_mef, data, ch, scs, scch)
    sc_cols = list(range(D)) if scch is None else [resolve(names, D, c) for c in scch]
    if ch is None:
        req_cols = sc_cols
    elif isinstance(ch, list):
        req_cols = [resolve(names, D, c) for c in ch]
    else:
        req_cols = [resolve(names, D, ch)]
    must_raise = (len(sc_cols) != nl) or any(c is None for c in sc_cols + req_cols) or any(c not in sc_cols for c in req_cols)
    if must_raise:
        ok = res[0] == 'raise' and isinstance(res[1], (ValueError, IndexError))
        return (not ok), 'length mismatch / uncovered channel / unknown name must raise ValueError; observed %s' % (
            res[0] if res[0] == 'return' else repr(res[1]))
    if res[0] == 'raise':
        return True, 'refused a complete request: %r' % (res[1],)
    out = res[1]
    exp = X.copy()
    for c in set(req_cols):
        exp[:, c] = scs[sc_cols.index(c)](X[:, c])
    if np.asarray(out).shape != exp.shape or not np.array_equal(np.asarray(out), exp):
        bad = [c for c in range(D) if not np.array_equal(np.asarray(out)[:, c], exp[:, c])]
        return True, 'columns %s differ from "requested channels converted with their own curve, others identical"' % bad
    if type(out) is not type(data):
        return True, 'container kind changed'
    if not np.array_equal(np.asarray(data, dtype=float), X):
        return True, 'input events were modified'
    if hasattr(data, '_range'):
        if repr(data._range) != before_range:
            return True, 'input range was modified'
        for c in range(D):
            r0 = data._range[c]
            if c in req_cols and r0 is not None:
                f = scs[sc_cols.index(c)]
                want = [f(r0[0]), f(r0[1])]
            else:
                want = r0
            if (out._range[c] is None) != (want is None) or (want is not None and list(out._range[c]) != list(want)):
                return True, 'range of column %d is %r, expected %r' % (c, out._range[c], want)
        mo, md = meta_of(out), meta_of(data)
        for k in mo:
            if k != 'range' and repr(mo[k]) != repr(md[k]):
                return True, 'metadata %s changed' % k
    return False, 'agrees'
