"""witnesses of the Density2d contract are inputs of the C05.density oracle"""
REPLAYERS_ALIAS = {'FlowCal.gate.density2d': 'C05.density'}
