"""witnesses of the Density2d / TextSegmentTokens contracts are inputs of the C05.density / C14.text oracles"""
REPLAYERS_ALIAS = {'FlowCal.gate.density2d': 'C05.density', 'FlowCal.io.read_fcs_text_segment': 'C14.text'}
