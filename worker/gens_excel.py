"""Generators of the bounded stand-ins for the Excel workflow (C10, C11, C15) and the frame/aliasing harness (C13).
Plug-in of gens.py: defines GENS, BOUNDS and failure_class."""
import copy
import itertools
import re

import gen_xlsx

UNIT_SPELLINGS = [None, 'Channel', 'RFI', 'a.u.', 'au', 'MEF', 'channel', 'CHANNEL', 'rfi', 'Rfi', 'A.U.', 'AU', 'Au', 'mef', 'Mef',
                  'ChAnNeL', 'mEF']
NON_MEF = [u for u in UNIT_SPELLINGS if u is None or u.lower() != 'mef']
MEF_SPELLINGS = [u for u in UNIT_SPELLINGS if u is not None and u.lower() == 'mef']
FRACTIONS = [0.25, 0.5, 0.85, 1.0, 1, 0.6]


# ------------------------------------------------------------------------------------------------ experiments (C10, C15)
def make_instrument(rnd, iid, tpl, datatype):
    t = gen_xlsx.TEMPLATES[tpl]
    if datatype == 'I':
        sc_amp = rnd.choice(['log', 'lin'])
        fl_amp = rnd.choice(['log', 'log', 'lin'])
    else:
        sc_amp = fl_amp = 'lin'
    return {'id': iid, 'template': tpl, 'datatype': datatype, 'sc_amp': sc_amp, 'fl_amp': fl_amp,
            'gain': rnd.choice([None, 1.0, 2.0, 0.5]), 'volts': {c: rnd.randrange(200, 900, 10) for c in t['channels'] if c != t['time']},
            'description': rnd.choice(['BD FACScan', 'core facility', 'bench top'])}


class UnitDeck(object):
    """cycles through every spelling so that a run covers all of them"""

    def __init__(self, rnd):
        self.rnd = rnd
        self.a = []
        self.m = []

    def draw(self, allow_mef):
        if allow_mef and self.rnd.random() < 0.45:
            if not self.m:
                self.m = list(MEF_SPELLINGS)
                self.rnd.shuffle(self.m)
            return self.m.pop()
        if not self.a:
            self.a = list(NON_MEF)
            self.rnd.shuffle(self.a)
        return self.a.pop()


def make_experiment(rnd, deck, n_inst, n_beads, n_samples, datatypes, all_units_empty=False, blank_rows=False, extra=None):
    tpls = rnd.sample([0, 1, 2], n_inst)
    insts = [make_instrument(rnd, 'FC%03d' % (k + 1), tpls[k], datatypes[k % len(datatypes)]) for k in range(n_inst)]
    by_id = {i['id']: i for i in insts}
    beads = []
    for k in range(n_beads):
        inst = insts[k % n_inst] if k < n_inst else rnd.choice(insts)
        t = gen_xlsx.template(inst)
        npop = rnd.choice([4, 5, 6])
        nch = rnd.choice([1, 2, 2])
        chans = sorted(rnd.sample(t['fl'], nch), key=t['fl'].index)
        none_at = rnd.choice([None, None, 1])
        mef = {c: gen_xlsx.mef_values_string(inst, npop, none_at=none_at if npop > 4 else None) for c in chans}
        beads.append({'id': 'B%d' % (k + 1) if rnd.random() < 0.7 else 'beads_%s' % 'xyz'[k], 'instrument': inst['id'],
                      'file': rnd.choice(['', 'FCFiles/']) + 'beads%02d.fcs' % (k + 1),
                      'data': {'instrument': inst['id'], 'kind': 'beads', 'n': rnd.choice([1500, 1800, 2200]),
                               'seed': rnd.randrange(10 ** 6), 'npop': npop},
                      'mef': mef, 'gate_fraction': rnd.choice([0.85, 0.7, 0.95, 0.5]),
                      'clustering': chans if rnd.random() < 0.6 else t['fl'][:2], 'lot': rnd.choice(['AJ01', 'AK02'])})
    mef_columns = []
    for i in insts:
        for c in gen_xlsx.template(i)['fl']:
            if any(c in b['mef'] for b in beads) and c not in mef_columns:
                mef_columns.append(c)
    if beads and rnd.random() < 0.3:
        spare = [c for i in insts for c in gen_xlsx.template(i)['fl'] if c not in mef_columns]
        if spare:
            mef_columns.append(spare[0])          # a MEF Values column that nobody fills in
    samples = []
    used_fl = []
    for k in range(n_samples):
        inst = insts[k % n_inst] if k < n_inst else rnd.choice(insts)
        t = gen_xlsx.template(inst)
        for c in t['fl']:
            if c not in used_fl:
                used_fl.append(c)
        cands = [b for b in beads if b['instrument'] == inst['id']]
        bd = rnd.choice(cands) if cands else None
        units = {}
        for c in t['fl']:
            if all_units_empty:
                units[c] = None
            else:
                units[c] = deck.draw(bd is not None and c in bd['mef'])
        samples.append({'id': rnd.choice(['S%04d', 'sample %d', 'c%d']) % (k + 1), 'instrument': inst['id'],
                        'beads': bd['id'] if bd else None,
                        'file': rnd.choice(['', 'FCFiles/', 'data/run1/']) + 'sample%03d.fcs' % (k + 1),
                        'data': {'instrument': inst['id'], 'kind': 'cells', 'n': rnd.choice([400, 700, 1200, 2000]),
                                 'seed': rnd.randrange(10 ** 6)},
                        'units': units, 'gate_fraction': rnd.choice(FRACTIONS),
                        'extra': {'Strain': rnd.choice(['sJS1123', 'MG1655', None]), 'DAPG (uM)': rnd.choice([0, 2.33, 15.3, 350.0]),
                                  'Replicate': rnd.randint(1, 3)}})
    ids = [s['id'] for s in samples]
    if len(set(ids)) != len(ids):
        for k, s in enumerate(samples):
            s['id'] = 'S%04d' % (k + 1)
    units_columns = list(used_fl)
    if len(units_columns) > 1 and rnd.random() < 0.35:
        drop = rnd.choice(units_columns)
        units_columns.remove(drop)                 # a fluorescence channel without a Units column
    return {'instruments': insts, 'beads': beads, 'samples': samples, 'units_columns': units_columns, 'mef_columns': mef_columns,
            'extra_columns': rnd.random() < 0.5 if extra is None else extra, 'blank_rows': blank_rows}


def experiment_plan(tier, rnd, multi):
    """(n_inst, n_beads, n_samples, datatypes)"""
    if not multi:
        plan = [(1, 1, 2, ['I']), (1, 1, 2, ['F']), (1, 0, 1, ['I'])]
        extra = 18
    else:
        plan = [(2, 2, 3, ['I', 'D']), (3, 1, 3, ['I', 'F', 'I'])]
        extra = 13
    if tier != 'quick':
        for _ in range(extra):
            ni = 1 if not multi else rnd.choice([2, 3])
            plan.append((ni, rnd.choice([0, 1, 2]), rnd.choice([1, 2, 3, 4]), [rnd.choice(['I', 'I', 'F', 'D']) for _ in range(ni)]))
    return plan


def g_c10(multi):
    def gen(tier, rnd):
        deck = UnitDeck(rnd)
        for k, (ni, nb, ns, dts) in enumerate(experiment_plan(tier, rnd, multi)):
            spec = make_experiment(rnd, deck, ni, nb, ns, dts)
            for aspect, shim in (('beads', 0), ('samples', 0), ('stats', 0), ('stats', 1), ('stats', 2), ('hist', 0)):
                if aspect == 'stats' and shim < 2 and k >= 2:
                    continue          # the real (crashing) statistics functions: first two experiments of each part only
                yield 'C10.excel', {'aspect': aspect, 'shim': shim, 'spec': spec}
        if not multi:
            # several rows reporting the same channel in the same units spelling on float data (every row has its own library
            # bin edges: range and most negative event differ): the histogram lines of a row must come from that row's sample
            for dt in ('F', 'D'):
                spec = make_experiment(rnd, deck, 1, 0, 3, [dt])
                fl = [c for c in spec['units_columns']]
                for k, smp in enumerate(spec['samples']):
                    smp['units'] = {c: ('a.u.' if c == fl[0] else (None if len(fl) < 2 or c != fl[1] else 'RFI')) for c in smp['units']}
                    smp['data']['n'] = [2000, 700, 1200][k]
                yield 'C10.excel', {'aspect': 'hist', 'shim': 0, 'spec': spec}
    return gen


# ------------------------------------------------------------------------------------------------ C11
C11_INSTS = [
    {'id': 'I1', 'template': 0, 'datatype': 'I', 'sc_amp': 'log', 'fl_amp': 'log', 'gain': None,
     'volts': {'FSC-H': 300, 'SSC-H': 350, 'FL1-H': 500, 'FL2-H': 550, 'FL3-H': 600}, 'description': 'main'},
    {'id': 'I2', 'template': 0, 'datatype': 'I', 'sc_amp': 'log', 'fl_amp': 'log', 'gain': None,
     'volts': {'FSC-H': 300, 'SSC-H': 350, 'FL1-H': 500, 'FL2-H': 550, 'FL3-H': 600}, 'description': 'other room'},
]
FL0, FL1 = 'FL1-H', 'FL2-H'
BEAD_FAULTS = ['notfound', 'few', 'gf_low', 'gf_high', 'unequal']
SAMPLE_FAULTS = ['notfound', 'few', 'gf_low', 'gf_high', 'units', 'nobeadcal', 'beadfaulty', 'nochannelcal', 'nochannelcol',
                 'otherinstr', 'othervolt', 'otheramp']


def c11_bead_row(bid, fault=None, inst='I1', chans=(FL0, FL1), seed=11, example=False):
    i = C11_INSTS[0]
    row = {'id': bid, 'instrument': inst, 'file': 'beads_%s.fcs' % bid,
           'data': {'instrument': inst, 'kind': 'beads', 'n': 1500, 'seed': seed, 'npop': 5},
           'mef': {c: gen_xlsx.mef_values_string(i, 5) for c in chans}, 'gate_fraction': 0.85, 'clustering': [FL0, FL1], 'lot': 'AJ01',
           'fault': fault}
    if fault == 'notfound':
        row['data'] = None
        row['file'] = 'nowhere/missing_%s.fcs' % bid
    elif fault == 'few':
        row['data']['n'] = 399
    elif fault == 'gf_low':
        row['gate_fraction'] = -0.1
    elif fault == 'gf_high':
        row['gate_fraction'] = 1.5
    elif fault == 'unequal':
        row['mef'] = {FL0: gen_xlsx.mef_values_string(i, 5), FL1: gen_xlsx.mef_values_string(i, 5, drop=1)}
    return row


def c11_context(with_fl1_column=True):
    """bead rows referenced by the sample tables"""
    beads = [c11_bead_row('B_ok', seed=21),
             c11_bead_row('B_fl0', chans=(FL0,), seed=22),
             c11_bead_row('B_nomef', chans=(), seed=23),
             c11_bead_row('B_bad', fault='notfound'),
             c11_bead_row('B_I2', inst='I2', seed=24)]
    if not with_fl1_column:
        beads = [c11_bead_row('B_ok', chans=(FL0,), seed=21), c11_bead_row('B_nomef', chans=(), seed=23)]
    return {'instruments': copy.deepcopy(C11_INSTS), 'beads': beads, 'mef_columns': [FL0, FL1] if with_fl1_column else [FL0],
            'units_columns': [FL0, FL1], 'extra_columns': False, 'blank_rows': False}


HEALTHY_VARIANTS = [
    {'beads': 'B_ok', 'units': {FL0: 'MEF', FL1: None}, 'gate_fraction': 0.5, 'n': 900, 'seed': 31},
    {'beads': None, 'units': {FL0: 'Channel', FL1: None}, 'gate_fraction': 0.85, 'n': 600, 'seed': 32},
    {'beads': 'B_ok', 'units': {FL0: None, FL1: 'mef'}, 'gate_fraction': 0.3, 'n': 1200, 'seed': 33},
    {'beads': 'B_fl0', 'units': {FL0: 'Mef', FL1: None}, 'gate_fraction': 1.0, 'n': 400, 'seed': 34},
    {'beads': None, 'units': {FL0: 'a.u.', FL1: 'RFI'}, 'gate_fraction': 0.6, 'n': 700, 'seed': 35},
]


def c11_sample_row(sid, fault, variant=0, k=0):
    v = HEALTHY_VARIANTS[variant % len(HEALTHY_VARIANTS)]
    row = {'id': sid, 'instrument': 'I1', 'beads': v['beads'], 'file': 'cells_%s.fcs' % sid,
           'data': {'instrument': 'I1', 'kind': 'cells', 'n': v['n'], 'seed': v['seed']},
           'units': dict(v['units']), 'gate_fraction': v['gate_fraction'], 'fault': fault, 'extra': {}}
    if fault == 'notfound':
        row['data'] = None
        row['file'] = 'missing_%s.fcs' % sid
    elif fault == 'few':
        row['data']['n'] = [399, 120][k % 2]
    elif fault == 'gf_low':
        row['gate_fraction'] = [-0.1, -2][k % 2]
    elif fault == 'gf_high':
        row['gate_fraction'] = [1.5, 1.0001][k % 2]
    elif fault == 'units':
        row['units'] = {FL0: ['MEFL', 'foo', 'a.u', 'RFI units'][k % 4], FL1: None}
    elif fault == 'nobeadcal':
        row['beads'] = 'B_nomef'
        row['units'] = {FL0: 'MEF', FL1: None}
    elif fault == 'beadfaulty':
        row['beads'] = 'B_bad'
        row['units'] = {FL0: 'MEF', FL1: None}
    elif fault == 'nochannelcal':
        row['beads'] = 'B_fl0'
        row['units'] = {FL0: 'RFI', FL1: 'MEF'}
    elif fault == 'nochannelcol':
        row['beads'] = 'B_ok'
        row['units'] = {FL0: None, FL1: 'MEF'}
    elif fault == 'otherinstr':
        row['beads'] = 'B_I2'
        row['units'] = {FL0: 'MEF', FL1: None}
    elif fault == 'othervolt':
        row['beads'] = 'B_ok'
        row['units'] = {FL0: 'MEF', FL1: None}
        row['data']['volt_override'] = {FL0: 555}
    elif fault == 'otheramp':
        row['beads'] = 'B_ok'
        row['units'] = {FL0: 'MEF', FL1: None}
        row['data']['amp_override'] = {FL0: '0,0'}
    return row


def c11_sample_table(kinds, k=0, pass_beads_table=True):
    """kinds: list of fault kinds ('ok' = healthy) in row order"""
    col = 'nochannelcol' in kinds
    ctx = c11_context(with_fl1_column=not col)
    rows = []
    for j, kind in enumerate(kinds):
        r = c11_sample_row('S%d' % (j + 1), None if kind == 'ok' else kind, variant=(j + k), k=j + k)
        if col and r['beads'] not in (None, 'B_ok', 'B_nomef'):
            r['beads'] = 'B_ok'
            if r['fault'] is None:
                r['units'] = {FL0: 'MEF', FL1: None}
        if col and r['fault'] is None and (r['units'].get(FL1) or '').lower() == 'mef':
            r['units'] = {FL0: 'MEF', FL1: 'RFI'}          # the reduced context calibrates the first channel only
        rows.append(r)
    ctx['samples'] = rows
    return ctx


def c11_compatible(kinds):
    """kinds needing bead rows that the reduced context ('nochannelcol') does not have"""
    if 'nochannelcol' in kinds:
        return not any(x in kinds for x in ('beadfaulty', 'nochannelcal', 'otherinstr'))
    return True


GF = ('gf_low', 'gf_high', 'nochannelcol')      # kinds known to abort the batch on the current tree: their tables come last


def has_gf(t):
    return any(k in GF for k in t)


def sample_tables(tier, rnd, gf):
    """tables (lists of fault kinds in row order) without (gf=False) / with (gf=True) a gate-fraction fault"""
    kinds = ['ok'] + SAMPLE_FAULTS
    plain = [k for k in kinds if k not in GF]
    pairs = [list(p) for p in itertools.product(kinds, repeat=2) if c11_compatible(p)]
    if not gf:
        tables = [[a] for a in plain]
        pp = [p for p in pairs if not has_gf(p)]
        # all-healthy tables whose rows report different channels (a row must not see what another row reported)
        if tier == 'quick':
            tables += [('k', 1, ['ok', 'ok', 'ok'])]
            tables += [['ok', f] for f in ('notfound', 'units', 'nobeadcal')]
            tables += [[f, 'ok'] for f in ('few', 'otherinstr')]
            rest = [p for p in pp if 'ok' not in p]
            rnd.shuffle(rest)
            tables += rest[:4]
        else:
            tables += [('k', 1, ['ok', 'ok']), ('k', 4, ['ok', 'ok']), ('k', 1, ['ok', 'ok', 'ok']), ('k', 0, ['ok', 'units', 'ok'])]
            tables += pp
            for f in plain[1:]:
                for pos in range(3):
                    t = ['ok', 'ok', 'ok']
                    t[pos] = f
                    tables.append(t)
            n = 0
            while n < 25:
                t = [rnd.choice(plain + ['ok', 'ok']) for _ in range(rnd.choice([3, 3, 4, 5]))]
                if c11_compatible(t):
                    tables.append(t)
                    n += 1
        return tables
    tables = [[a] for a in GF]
    if tier == 'quick':
        tables += [['ok', 'gf_low'], ['gf_high', 'units'], ['ok', 'nochannelcol'], ['nochannelcol', 'few']]
    else:
        tables += [p for p in pairs if has_gf(p)]
        for f in GF:
            for pos in range(3):
                t = ['ok', 'ok', 'ok']
                t[pos] = f
                tables.append(t)
        n = 0
        while n < 16:
            t = [rnd.choice(kinds + ['ok', 'ok']) for _ in range(rnd.choice([3, 3, 4, 5]))]
            if c11_compatible(t) and has_gf(t):
                tables.append(t)
                n += 1
    return tables


def g_c11_samples(gf):
    def gen(tier, rnd):
        for k, t in enumerate(sample_tables(tier, rnd, gf)):
            if isinstance(t, tuple):
                k, t = 1000 + t[1], t[2]
            pbt = True
            if not any(x in t for x in ('otherinstr', 'othervolt', 'otheramp')) and k % 7 == 3:
                pbt = False          # the acquisition-settings check is documented to be skipped without the beads table
            spec = c11_sample_table(t, k=k)
            aspects = [('samples', 0), ('stats', 2)]
            if k in (0, 1001, 1004) and not gf:
                aspects.append(('stats', 0))          # the real statistics functions (known to crash): two tables per run
            for aspect, shim in aspects:
                yield 'C11.faults', {'aspect': aspect, 'shim': shim, 'spec': spec, 'pass_beads_table': pbt, 'kinds': t}
    return gen


def bead_tables(tier, rnd, gf):
    kinds = ['ok'] + BEAD_FAULTS
    GF = ('gf_low', 'gf_high')
    plain = [k for k in kinds if k not in GF]
    pairs = [list(p) for p in itertools.product(kinds, repeat=2)]
    triples = [list(p) for p in itertools.product(kinds, repeat=3)]
    rnd.shuffle(triples)
    if not gf:
        tables = [[a] for a in plain]
        if tier == 'quick':
            tables += [['ok', 'unequal'], ['few', 'ok'], ['notfound', 'unequal'], ['ok', 'notfound']]
        else:
            tables += [p for p in pairs if not has_gf(p)]
            tables += [t for t in triples if not has_gf(t)][:30]
        return tables
    tables = [[a] for a in GF]
    if tier == 'quick':
        tables += [['ok', 'gf_low'], ['gf_high', 'few']]
    else:
        tables += [p for p in pairs if has_gf(p)]
        tables += [t for t in triples if has_gf(t)][:10]
    return tables


def g_c11_beads(gf):
    def gen(tier, rnd):
        for k, t in enumerate(bead_tables(tier, rnd, gf)):
            rows = []
            for j, kind in enumerate(t):
                rows.append(c11_bead_row('B%d' % (j + 1), None if kind == 'ok' else kind, seed=40 + (j + k) % 3))
            spec = {'instruments': copy.deepcopy(C11_INSTS[:1]), 'beads': rows, 'samples': [], 'mef_columns': [FL0, FL1],
                    'units_columns': [FL0], 'extra_columns': False, 'blank_rows': False}
            yield 'C11.faults', {'aspect': 'beads', 'spec': spec, 'kinds': t}
    return gen


def g_c11_empty(tier, rnd):
    spec = c11_sample_table(['ok'])
    yield 'C11.faults', {'aspect': 'empty', 'spec': spec, 'kinds': []}


# ------------------------------------------------------------------------------------------------ C15
def g_c15_run(tier, rnd):
    deck = UnitDeck(rnd)
    # (n_inst, n_beads, n_samples, datatypes, all_units_empty, blank_rows, [(plot, hist, explicit_out, shim, extra_sheet, name)])
    plans = [
        (1, 1, 2, ['I'], True, False, [(False, True, False, 0, False, 'experiment.xlsx')]),
        (1, 1, 2, ['I'], False, False, [(False, False, False, 0, False, 'experiment.xlsx'), (False, True, True, 2, False, 'experiment.xlsx'),
                                        (False, True, False, 0, False, 'experiment.xlsx')]),
        (2, 2, 3, ['F', 'I'], False, True, [(False, True, False, 2, True, 'my experiment v2.xlsx'), (False, False, True, 1, False, 'e.xlsx')]),
        (1, 0, 1, ['D'], False, False, [(False, True, False, 2, False, 'nobeads.xlsx')]),
    ]
    if tier != 'quick':
        plans.append((1, 1, 2, ['I'], False, False, [(True, True, False, 2, False, 'plots.xlsx'), (True, False, True, 2, False, 'plots.xlsx')]))
        plans.append((2, 2, 2, ['F', 'I'], False, False, [(True, True, False, 2, False, 'plots2.xlsx')]))
        plans.append((1, 1, 1, ['I'], True, False, [(True, False, False, 0, False, 'plots_nounits.xlsx')]))
        plans.append((1, 0, 2, ['I'], False, False, [(True, True, False, 2, False, 'plots_nobeads.xlsx')]))
        plans.append((2, 0, 2, ['F', 'I'], False, False, [(True, False, True, 2, False, 'plots_nobeads2.xlsx')]))
        for _ in range(14):
            ni = rnd.choice([1, 2, 3])
            opts = [(False, rnd.random() < 0.5, rnd.random() < 0.5, 2, rnd.random() < 0.3, rnd.choice(['experiment.xlsx', 'run 7.xlsx'])),
                    (False, rnd.random() < 0.5, rnd.random() < 0.5, 0, False, 'experiment.xlsx')]
            plans.append((ni, rnd.choice([0, 1, 2]), rnd.choice([1, 2, 3, 4]), [rnd.choice(['I', 'F', 'D']) for _ in range(ni)],
                          rnd.random() < 0.25, rnd.random() < 0.4, opts))
    for (ni, nb, ns, dts, empty, blank, opts) in plans:
        spec = make_experiment(rnd, deck, ni, nb, ns, dts, all_units_empty=empty, blank_rows=blank)
        for (plot, hist, explicit, shim, sheet, name) in opts:
            yield 'C15.workbook', {'spec': spec, 'plot': plot, 'hist': hist, 'explicit_out': explicit, 'shim': shim,
                                   'extra_sheet': sheet, 'name': name}


NA_LIKE = ['NA', 'N/A', 'None', 'null', 'NULL', 'nan', 'NaN', 'n/a', '#N/A', '<NA>']


def g_c15_roundtrip(tier, rnd):
    n = 30 if tier == 'quick' else 300
    for k in range(n):
        nt = rnd.choice([1, 1, 2, 3])
        tabs = []
        for j in range(nt):
            dup = (k % 6 == 5 and j == 0)
            t = gen_xlsx.random_table(rnd, rnd.choice([3, 5, 9] if dup else [0, 1, 2, 5, 9]), rnd.choice([1, 2, 4, 7]),
                                      ids=rnd.choice(['str', 'str', 'int']), blank_ids=rnd.choice([0, 1] if dup else [0, 0, 1, 2]), dup_ids=dup)
            t['name'] = ['Instruments', 'Beads', 'Samples', 'Sheet 4'][j]
            tabs.append(t)
        yield 'C15.roundtrip', {'tables': tabs, 'writer': 'write_workbook' if k % 3 else 'openpyxl', 'by_position': k % 5 == 4,
                                'column_width': 12 if k % 4 == 1 else None}
    for w in (NA_LIKE if tier != 'quick' else NA_LIKE[:2]):
        t = {'name': 'Samples', 'columns': ['ID', 'Strain', 'x'], 'rows': [['S1', w, 1], ['S2', 'plain', 2]]}
        yield 'C15.roundtrip', {'tables': [t], 'writer': 'write_workbook', 'by_position': False, 'column_width': None}
    # text cells whose whole column looks numeric (identifiers such as 001, 002)
    numeric_text = [[['001', 'a', 1], ['002', 'b', 2]], [['S1', '3.50', 1], ['S2', '12', 2]], [['S1', '1e3', 1], ['S2', None, 2]]]
    for rows in (numeric_text if tier != 'quick' else numeric_text[:2]):
        t = {'name': 'Samples', 'columns': ['ID', 'Strain', 'x'], 'rows': rows}
        yield 'C15.roundtrip', {'tables': [t], 'writer': 'write_workbook', 'by_position': False, 'column_width': None}


def g_c15_example(tier, rnd):
    if tier == 'quick':
        return
    yield 'C15.example', {'plot': False, 'hist': False, 'shim': 0}
    yield 'C15.example', {'plot': False, 'hist': True, 'shim': 2}
    yield 'C15.example', {'plot': True, 'hist': False, 'shim': 2}


# ------------------------------------------------------------------------------------------------ C13
def g_c13_calls(late):
    def gen(tier, rnd):
        import replay_excel
        for name, variant in replay_excel.c13_variants(tier):
            if replay_excel.c13_known_late(name, variant) == late:
                yield 'C13.frame', {'kind': 'call', 'fn': name, 'variant': variant}
        if late:
            for kind in (('int',) if tier == 'quick' else ('int', 'float', 'rfi')):
                for q in ('hist_bins:log', 'hist_bins:all-log'):
                    yield 'C13.frame', {'kind': 'order', 'first': q, 'sample': kind}
    return gen


def g_c13_share(tier, rnd):
    import replay_excel

    class Lazy(object):
        F = None
    for op in replay_excel.c13_share_ops(Lazy()):
        for kind in (('int', 'float') if tier == 'quick' else ('int', 'float', 'rfi')):
            yield 'C13.frame', {'kind': 'share', 'op': op, 'sample': kind}


def g_c13_order(tier, rnd):
    import replay_excel

    class Lazy(object):
        F = None
    for kind in (('int',) if tier == 'quick' else ('int', 'float', 'rfi')):
        for q, _f in replay_excel.c13_queries(Lazy()):
            if q not in ('hist_bins:log', 'hist_bins:all-log'):
                yield 'C13.frame', {'kind': 'order', 'first': q, 'sample': kind}


def g_c13_coverage(tier, rnd):
    yield 'C13.frame', {'kind': 'coverage'}


GENS = {
    'C13': [('calls', g_c13_calls(False)), ('sharing', g_c13_share), ('query_order', g_c13_order),
            ('known_candidates', g_c13_calls(True)), ('coverage', g_c13_coverage)],
    'C10': [('one_instrument', g_c10(False)), ('several_instruments', g_c10(True))],
    'C11': [('beads', g_c11_beads(False)), ('samples', g_c11_samples(False)), ('empty', g_c11_empty),
            ('beads_gate_fraction', g_c11_beads(True)), ('samples_gate_fraction', g_c11_samples(True))],
    'C15': [('run', g_c15_run), ('roundtrip', g_c15_roundtrip), ('example', g_c15_example)],
}

BOUNDS = {
    'C10': ('generated experiments (synthetic FCS files written by gen_fcs, workbook written with openpyxl, tables read with pandas): '
            '5 (quick) / 36 (thorough) experiments in two parts (one instrument; 2..3 instruments) with different channel names (3 '
            'templates), integer (log or linear amplifiers, gains, saturated events at both ends), float32 and float64 data '
            '(negative and zero events), 0..2 bead rows (4..6 populations, 1..2 calibrated channels, a None entry, an unused MEF '
            'column), 1..4 sample rows of 400..2000 events, units cycling through every spelling of {empty, Channel, RFI, a.u., au, '
            'MEF} in several letter cases (17 spellings), fractions {0.25, 0.5, 0.6, 0.85, 1.0, 1}, channels without a Units column; '
            'each experiment is judged under the aspects beads / samples / stats (with stats.mode resp. mode+iqr+rcv replaced by '
            'their definitions when a probe shows them broken; the real library for the first two experiments of each part) / hist; '
            'comparisons are exact (bitwise); numpy\'s global generator is seeded before every bead run'),
    'C11': ('bead tables (one instrument): quick the 4 one-row tables of {healthy, file not found, 399 events, unequal MEF value '
            'counts} + 4 two-row tables, thorough all 16 ordered pairs + 30 seeded 3-row tables; gate-fraction faults (-0.1, 1.5) in '
            'a final part: quick 2 one-row + 2 two-row tables, thorough all 20 ordered pairs containing one + 10 seeded triples. '
            'Sample tables over 5 fixed bead rows (two channels calibrated / one / none / file missing / other instrument) with '
            'fault kinds {file not found, 399|120 events, unrecognised units (4 spellings), beads without calibration, faulty beads '
            'row, channel not calibrated, beads on another instrument, other detector voltage, other amplifier}: quick the 10 '
            'one-row tables, one all-healthy 3-row table whose rows report different channels, 5 healthy+faulty pairs, 4 seeded '
            'faulty pairs; thorough all ordered pairs, every fault kind at every position of a 3-row table with two healthy rows, '
            '25 seeded 3..5-row tables. Kinds that abort the whole batch on the current tree (fraction -0.1|-2|1.5|1.0001; channel '
            'without a MEF Values column) come in a final part: quick 3 one-row + 4 two-row tables, thorough all ordered pairs '
            'containing one, each at every position of a 3-row table, 16 seeded 3..5-row tables. Every table is judged under the '
            'aspects samples and stats (broken statistics functions replaced by their definitions; the real ones for 2 tables); '
            'healthy rows are compared bitwise with their single-row run (rows with an identical description reuse it); one table '
            'in seven is processed without the beads table; one case with empty tables'),
    'C13': ('every public function and every public method/property of the public classes of io, transform, gate, stats, mef, plot '
            '(enumerated with inspect on every run: 56 names today; functions without a call entry are listed by the coverage case): '
            '308 (quick) / 614 (thorough) calls over a loaded integer sample, a loaded float sample, an RFI-converted sample, a bead '
            'sample and plain arrays (320 resp. 900 events), channels given as None / name / position / list, every scale linear / '
            'log / logicle, bins as int / None / lists of None, int and edge arrays / arrays, caller-owned lists and dictionaries for '
            'every such parameter, figures on the Agg backend; arguments (and the original elements of list/dict arguments) are '
            'fingerprinted (event bytes, dtype, shape, every attribute, container contents and element identities) before and after; '
            '23 converting/gating/copying/slicing/viewing operations x 2 (quick) / 3 samples: no shared event buffer (copies), no '
            'shared metadata container, scribbling over ranges/keywords(/events) of either side leaves the other unchanged; 31 '
            'read-only queries x 1 / 3 samples: for every ordered pair the second answer equals the answer on a fresh load'),
    'C15': ('run(): 4 generated workbooks x 6 option settings (quick; plots off) / 23 workbooks x 39 settings incl. 6 with plots '
            '(thorough): histogram sheet on/off, explicit or default output path, extra sheet, rows without identifier, user '
            'columns; unit-free workbooks run on the real library, the others with the broken statistics functions replaced by '
            'their definitions (and a few on the real library); write_workbook/read_table: 30 / 300 seeded workbooks of 1..3 sheets, '
            '0..9 rows, 1..7 columns of strings (not numeric-looking, not NA-like), ints, floats of at most 15 significant digits and '
            'empty cells, 0..2 rows without identifier, every sixth with a duplicated identifier, written by write_workbook or '
            'openpyxl, read by name or position; dedicated cases for strings that pandas treats as missing (2 / 10 spellings) and '
            'text columns that look numeric (2 / 3 tables); the shipped example workbook under 3 option settings (thorough)'),
}


def failure_class(target, inp, detail):
    if target in ('C10.excel', 'C11.faults', 'C15.workbook', 'C15.roundtrip', 'C15.example', 'C13.frame'):
        m = re.match(r'\[([^\]]+)\]', str(detail))
        tag = m.group(1) if m else re.sub(r'[^A-Za-z]+', '-', str(detail))[:40]
        if target == 'C10.excel':
            return '%s:%s' % (inp.get('aspect'), tag)
        return tag
    return None
