"""C20, bounded: a sample in a state reached by up to three analysis steps is copied / deep-copied / viewed / pickled with every
protocol; the result must equal the original in event values (element-wise), numeric kind and width, and every metadata attribute,
and (apart from the event buffer of a view) be independent of it.  Oracle written from the property text; the snapshot of the
original is taken element by element before the operation."""
import copy
import pickle

import numpy as np

from replay import replayer, make_fcs, fnum

ATTRS = ('_infile', '_text', '_analysis', '_data_type', '_time_step', '_acquisition_start_time', '_acquisition_end_time', '_channels',
         '_amplification_type', '_detector_voltage', '_amplifier_gain', '_channel_labels', '_range', '_resolution')


def _snap(s):
    return {'values': [[float(v) for v in row] for row in np.asarray(s).reshape(s.shape[0], -1)] if s.ndim == 2 else [float(v) for v in np.asarray(s)],
            'shape': tuple(s.shape), 'kind': s.dtype.kind, 'width': s.dtype.itemsize,
            'meta': {a: copy.deepcopy(getattr(s, a, None)) for a in ATTRS}}


def _same(a, b):
    if isinstance(a, (list, tuple)) and isinstance(b, (list, tuple)):
        return type(a) is type(b) and len(a) == len(b) and all(_same(x, y) for x, y in zip(a, b))
    if isinstance(a, dict) and isinstance(b, dict):
        return set(a) == set(b) and all(_same(a[k], b[k]) for k in a)
    if isinstance(a, float) and isinstance(b, float) and a != a and b != b:
        return True
    try:
        r = (a == b)
        return bool(r) if not hasattr(r, 'all') else bool(np.all(r))
    except Exception:
        return False


def _state(tmp, inp):
    import FlowCal
    rows = [[fnum(v) for v in r] for r in inp['data']]
    s = make_fcs(tmp, rows, inp.get('meta'), datatype=inp.get('datatype', 'D'))
    for st in inp['steps']:
        k = st[0]
        if k == 'channels-list':
            s = s[:, [s.channels[c] for c in st[1]]]
        elif k == 'channels-pos':
            s = s[:, list(st[1])]
        elif k == 'channels-range':
            s = s[:, st[1]:st[2]]
        elif k == 'channel-one':
            s = s[:, st[1]]
        elif k == 'events':
            s = s[st[1]:st[2]]
        elif k == 'mask':
            s = s[np.array([(i % st[1]) != 0 for i in range(s.shape[0])], dtype=bool)]
        elif k == 'rfi':
            s = FlowCal.transform.to_rfi(s)
        elif k == 'gate':
            s = FlowCal.gate.start_end(s, num_start=st[1], num_end=st[2])
    return s


OPS = {'copy()': lambda s: s.copy(), 'copy.copy': copy.copy, 'copy.deepcopy': copy.deepcopy, 'view()': lambda s: s.view()}
for _p in range(0, 6):
    OPS['pickle-%d' % _p] = (lambda s, _p=_p: pickle.loads(pickle.dumps(s, protocol=_p)))


@replayer('C20.states')
def r_c20(tmp, inp):
    s = _state(tmp, inp)
    before = _snap(s)
    op = inp['op']
    try:
        r = OPS[op](s)
    except Exception as e:   # noqa
        return True, '[raised] %s on a sample after %r raised %s: %s' % (op, inp['steps'], type(e).__name__, e)
    if type(r) is not type(s):
        return True, '[type] %s returns %s' % (op, type(r).__name__)
    after = _snap(r)
    if after['shape'] != before['shape'] or not _same(after['values'], before['values']):
        return True, '[events] %s after %r: event values differ from the original (shape %s vs %s)' % (op, inp['steps'], after['shape'], before['shape'])
    if after['kind'] != before['kind'] or after['width'] != before['width']:
        return True, '[dtype] %s after %r: numeric kind/width %s%d vs %s%d' % (op, inp['steps'], after['kind'], after['width'], before['kind'], before['width'])
    for a in ATTRS:
        if not _same(after['meta'][a], before['meta'][a]):
            return True, '[metadata] %s after %r: attribute %s differs: %r vs %r' % (op, inp['steps'], a, after['meta'][a], before['meta'][a])
    # the original is what it was
    now = _snap(s)
    if not _same(now['values'], before['values']) or any(not _same(now['meta'][a], before['meta'][a]) for a in ATTRS):
        return True, '[original-changed] %s changed the original' % op
    # independence: a change of the result's metadata (and, except for a view, of its events) is invisible to the original
    try:
        if r._range and r._range[0] is not None:
            r._range[0][0] = -12345.0
        # every mutable metadata container of the result, not only the ranges (seeded change C20-4: a view of a sample that owns its
        # buffer shared the TEXT / ANALYSIS dictionaries with it)
        for a in ATTRS:
            v = getattr(r, a, None)
            if isinstance(v, dict):
                v['$VERIF-INDEPENDENCE'] = 'changed'
                for k in list(v)[:1]:
                    v[k] = 'changed'
            elif isinstance(v, list) and v:
                v[0] = 'changed'
        if r.size and op != 'view()':
            r.flat[0] = -54321.0
    except Exception:
        pass
    now = _snap(s)
    if any(not _same(now['meta'][a], before['meta'][a]) for a in ATTRS):
        return True, '[shared-metadata] after %s, changing the result\'s metadata containers (range, TEXT, ANALYSIS, lists) changes the original: %s' % (op, [a for a in ATTRS if not _same(now['meta'][a], before['meta'][a])])
    if op != 'view()' and not _same(now['values'], before['values']):
        return True, '[shared-events] after %s, writing into the result changes the original' % op
    return False, 'agrees'
